package rules

import (
	"go/ast"
	"go/token"
	"go/types"
	"math"
	"sort"
	"strings"

	"verif/checker/internal/astx"
	"verif/checker/internal/cfgx"
	"verif/checker/internal/load"
)

func init() { register("C06", c06) }

// lenFactBound derives a lower bound for len(X) from one fact (isLenOf recognises len(X) / a local defined as len(X)).
func lenFactBound(info *types.Info, root ast.Node, f cfgx.Fact, isX func(ast.Expr) bool) (int64, bool) {
	if f.Tag != nil {
		return 0, false
	}
	be, ok := ast.Unparen(f.Expr).(*ast.BinaryExpr)
	if !ok {
		return 0, false
	}
	isLen := func(e ast.Expr) bool {
		e = ast.Unparen(e)
		if d := uniqueDef(info, root, e); d != nil {
			e = ast.Unparen(d)
		}
		call, ok := e.(*ast.CallExpr)
		return ok && astx.Builtin(info, call) == "len" && len(call.Args) == 1 && isX(call.Args[0])
	}
	constOf := func(e ast.Expr) (int64, bool) {
		if v, ok := astx.ConstInt(info, e); ok {
			return v, true
		}
		if d := uniqueDef(info, root, e); d != nil {
			return astx.ConstInt(info, d)
		}
		return 0, false
	}
	op := be.Op
	var n int64
	switch {
	case isLen(be.X):
		v, ok := constOf(be.Y)
		if !ok {
			return 0, false
		}
		n = v
	case isLen(be.Y):
		v, ok := constOf(be.X)
		if !ok {
			return 0, false
		}
		n = v
		switch op { // mirror: n op len  ==  len op' n
		case token.LSS:
			op = token.GTR
		case token.GTR:
			op = token.LSS
		case token.LEQ:
			op = token.GEQ
		case token.GEQ:
			op = token.LEQ
		}
	default:
		return 0, false
	}
	if !f.Val { // negate
		switch op {
		case token.LSS:
			op = token.GEQ
		case token.GEQ:
			op = token.LSS
		case token.GTR:
			op = token.LEQ
		case token.LEQ:
			op = token.GTR
		case token.EQL:
			op = token.NEQ
		case token.NEQ:
			op = token.EQL
		}
	}
	switch op {
	case token.GEQ:
		return n, true
	case token.GTR:
		return n + 1, true
	case token.EQL:
		return n, true
	case token.NEQ:
		// a length is not negative: len(x) != 0 means at least one element
		if n == 0 {
			return 1, true
		}
	}
	return 0, false
}

func c06(c *Ctx) {
	r := c.R
	f := c.irc()
	if len(r.Broken) > 0 {
		return
	}
	r.Explanation = "Panic-freedom by exhaustive obligation discharge: every construct in the code reachable from the state-machine step that the Go specification allows to panic (or to not return) becomes an obligation. (G1) msg.Params[k] against a lower bound on the number of parameters (registry MinParams, literals at direct calls, dominating length tests); (G2) every other index / slice expression by a closed list of idioms; (G3) every dereference of a pointer obtained from a state-map look-up by a local ok test, a store, or one of the named state invariants I1-I4 whose preservation C14 checks; (G4) results of calls whose error is dropped; (G5) maps that are index-assigned are initialised by every constructor; (G6) no explicit termination call; (G7) no unchecked type assertion or division; (G8) no recursion and no lock re-acquisition under the locks the step holds; (G9) library preconditions. For authenticated services links only protocol-conforming lines are promised safe: parameter-count and prefix obligations in code reachable only through server_ keys are recorded as assumed."
	r.Rules = []string{"C06.G1 msg.Params bounds", "C06.G2 index and slice expressions", "C06.G3 state look-up dereferences", "C06.G4 unchecked call results", "C06.G5 nil-map writes", "C06.G6 explicit termination", "C06.G7 other run-time panics", "C06.G8 non-termination and lock re-entry", "C06.G9 library preconditions"}

	arm := c.MustFunc("main.(*FSM).applyRobustMessage")
	if arm == nil || f.PM == nil {
		return
	}
	scope := map[*load.FuncInfo]bool{}
	for fi := range f.CReach {
		scope[fi] = true
	}
	for fi := range f.SReach {
		scope[fi] = true
	}
	fns := []*load.FuncInfo{}
	for fi := range scope {
		if fi.Pkg.PkgPath == pathIrcsrv && fi.Body() != nil {
			fns = append(fns, fi)
		}
	}
	// … and the functions of package main that the step runs through before and after the IRC server: Apply and what it calls
	// in its own package (applyProto, applyRobustMessage, sendMessages and any helper that looks at the client's line)
	// (only the index / slice rule G2 is applied to them: their termination calls are the deliberate reaction to a storage
	// failure, which is outside the property)
	var mainFns []*load.FuncInfo
	if ap := c.P.Func("main.(*FSM).Apply"); ap != nil {
		for _, fi := range c.moduleCallees(ap, false) {
			// … and the functions of the replicated packages that Apply reaches without going through ProcessMessage
			// (UpdateLastClientMessageID, CreateSession, the decoders of package robust): they see the client's line too
			switch pk := load.ShortPkg(fi.Pkg.PkgPath); {
			case fi.Body() == nil || scope[fi]:
			case pk == "main" || pk == "ircserver" || pk == "robust" || pk == "config":
				mainFns = append(mainFns, fi)
			}
		}
	}
	sort.Slice(mainFns, func(i, j int) bool { return mainFns[i].Name() < mainFns[j].Name() })
	sort.Slice(fns, func(i, j int) bool { return fns[i].Name() < fns[j].Name() })
	r.Functions = len(fns) + len(mainFns)
	serverOnly := func(fi *load.FuncInfo) bool { return f.SReach[fi] && !f.CReach[fi] }
	if len(fns) < 60 {
		r.Break("only %d reachable ircserver functions (expected >= 60)", len(fns))
		return
	}

	// ================= G1: entry bounds on len(msg.Params)
	const inf = math.MaxInt32
	bound := map[*load.FuncInfo]int64{}
	for _, fi := range fns {
		bound[fi] = inf
	}
	for _, e := range f.Registry {
		if e.Handler != nil && !e.TestingOnly {
			if int64(e.MinParams) < bound[e.Handler] {
				bound[e.Handler] = int64(e.MinParams)
			}
		}
	}
	// dispatch guard: cmd.Func is called only on the false edge of len(ircmsg.Params) < cmd.MinParams
	{
		g := c.Graph(f.PM)
		ok := false
		for _, call := range astx.Calls(f.PM.Body(), false) {
			se, isSel := ast.Unparen(call.Fun).(*ast.SelectorExpr)
			if !isSel || se.Sel.Name != "Func" {
				continue
			}
			for _, fct := range g.FactsAt(g.VertexOf(call)) {
				if be, isBE := ast.Unparen(fct.Expr).(*ast.BinaryExpr); isBE && !fct.Val && be.Op == token.LSS && strings.HasSuffix(astx.Str(be.Y), ".MinParams") && strings.Contains(astx.Str(be.X), "Params") {
					ok = true
				}
			}
		}
		r.Check(ok, "C06.G1", f.PM.Name(), "dispatch enforces MinParams", c.P.Pos(f.PM.Node().Pos()), "cmd.Func called on the false edge of len(Params) < cmd.MinParams",
			"the handler is invoked without the registry's MinParams having been enforced: every msg.Params[k] in the handlers is unguarded")
	}
	siteBound := func(fi *load.FuncInfo, g *cfgx.Graph, at ast.Node, isX func(ast.Expr) bool, entry int64) int64 {
		b := entry
		if b == inf {
			b = 0
		}
		info := fi.Info()
		for _, fct := range g.FactsAtNode(at) {
			if n, ok := lenFactBound(info, fi.Node(), fct, isX); ok && n > b {
				b = n
			}
		}
		return b
	}
	isParamsOf := func(info *types.Info, obj types.Object) func(ast.Expr) bool {
		return func(e ast.Expr) bool {
			se, ok := ast.Unparen(e).(*ast.SelectorExpr)
			if !ok || se.Sel.Name != "Params" {
				return false
			}
			id, ok := ast.Unparen(se.X).(*ast.Ident)
			return ok && astx.Obj(info, id) == obj
		}
	}
	for iter := 0; iter < 8; iter++ {
		changed := false
		for _, fi := range fns {
			info := fi.Info()
			g := c.Graph(fi)
			mp := f.msgParam(fi)
			for _, call := range astx.Calls(fi.Body(), true) {
				fn := astx.Callee(info, call)
				if fn == nil {
					continue
				}
				cal := c.P.FuncOf(fn)
				if cal == nil || !scope[cal] || f.msgParam(cal) == nil {
					continue
				}
				// which argument is the message?
				sig := fn.Type().(*types.Signature)
				for ai := 0; ai < sig.Params().Len() && ai < len(call.Args); ai++ {
					if !astx.IsNamed(sig.Params().At(ai).Type(), pathIRC, "Message") {
						continue
					}
					a := ast.Unparen(call.Args[ai])
					var nb int64 = 0
					switch {
					case isMsgLit(a) != nil:
						nb = litParamsLen(info, isMsgLit(a))
					default:
						if id, ok := a.(*ast.Ident); ok {
							o := astx.Obj(info, id)
							if o == mp && mp != nil {
								nb = siteBound(fi, g, call, isParamsOf(info, mp), bound[fi])
							} else {
								nb = siteBound(fi, g, call, isParamsOf(info, o), 0)
							}
						}
					}
					if nb < bound[cal] {
						bound[cal] = nb
						changed = true
					}
				}
			}
		}
		if !changed {
			break
		}
	}
	nG1 := 0
	for _, fi := range fns {
		mp := f.msgParam(fi)
		if mp == nil {
			continue
		}
		info := fi.Info()
		g := c.Graph(fi)
		isX := isParamsOf(info, mp)
		ast.Inspect(fi.Body(), func(n ast.Node) bool {
			var low int64 = -1
			var what string
			var node ast.Expr
			switch x := n.(type) {
			case *ast.IndexExpr:
				if !isX(x.X) {
					return true
				}
				node = x
				if k, ok := astx.ConstInt(info, x.Index); ok {
					low, what = k+1, "msg.Params["+itoa(int(k))+"]"
				} else {
					// variable index: needs a dominating len(Params) > idx with the same expression
					ok := false
					for _, fct := range g.FactsAtNode(x) {
						if be, isBE := ast.Unparen(fct.Expr).(*ast.BinaryExpr); isBE && fct.Tag == nil && fct.Val && be.Op == token.GTR {
							if call, isC := ast.Unparen(be.X).(*ast.CallExpr); isC && astx.Builtin(info, call) == "len" && isX(call.Args[0]) && astx.Same(info, be.Y, x.Index) {
								ok = true
							}
						}
					}
					nG1++
					construct := "msg.Params[" + astx.Str(x.Index) + "]"
					if !ok && loopVarBelowLen(info, fi, x, x.Index, isX) {
						r.Ok("C06.G1", fi.Name(), construct, c.P.Pos(x.Pos()), "loop variable counting from a non-negative constant while below len(msg.Params)")
					} else if ok {
						r.Ok("C06.G1", fi.Name(), construct, c.P.Pos(x.Pos()), "dominated by len(msg.Params) > "+astx.Str(x.Index))
					} else if serverOnly(fi) {
						r.Assume("C06.G1", fi.Name(), construct, c.P.Pos(x.Pos()), "services lines are protocol-conforming")
					} else {
						r.Fail("C06.G1", fi.Name(), construct, c.P.Pos(x.Pos()), "the parameter index is not bounded by a dominating test of len(msg.Params): index out of range panic for a short line")
					}
					return true
				}
			case *ast.SliceExpr:
				if !isX(x.X) || x.Low == nil {
					return true
				}
				node = x
				if k, ok := astx.ConstInt(info, x.Low); ok {
					low, what = k, "msg.Params["+itoa(int(k))+":]"
				} else {
					return true
				}
			default:
				return true
			}
			nG1++
			b := siteBound(fi, g, node, isX, bound[fi])
			switch {
			case b >= low:
				r.Ok("C06.G1", fi.Name(), what, c.P.Pos(node.Pos()), "at least "+itoa(int(b))+" parameters on every path (entry bound "+boundStr(bound[fi])+")")
			case serverOnly(fi):
				r.Assume("C06.G1", fi.Name(), what, c.P.Pos(node.Pos()), "services lines are protocol-conforming (entry bound "+boundStr(bound[fi])+")")
			default:
				r.Fail("C06.G1", fi.Name(), what, c.P.Pos(node.Pos()), "only "+itoa(int(b))+" parameter(s) are guaranteed here (registry MinParams / literal at a direct call / dominating length tests; entry bound "+boundStr(bound[fi])+"): a client line with fewer parameters panics with index out of range while being applied, on every node")
			}
			return true
		})
	}
	r.Check(nG1 >= 80, "C06.G1", "scope", "parameter accesses enumerated", "-", itoa(nG1), "fewer msg.Params accesses than expected")

	c.c06Index(f, append(append([]*load.FuncInfo{}, fns...), mainFns...), serverOnly)
	c.c06Nil(f, fns, serverOnly, arm)
	c.c06Misc(f, fns, arm)
}

func boundStr(b int64) string {
	if b >= math.MaxInt32 {
		return "never entered"
	}
	return itoa(int(b))
}

func isMsgLit(e ast.Expr) *ast.CompositeLit {
	e = ast.Unparen(e)
	if u, ok := e.(*ast.UnaryExpr); ok && u.Op == token.AND {
		if cl, ok := ast.Unparen(u.X).(*ast.CompositeLit); ok {
			return cl
		}
	}
	return nil
}

func litParamsLen(info *types.Info, cl *ast.CompositeLit) int64 {
	p := litField(cl, "Params")
	if p == nil {
		return 0
	}
	if pl, ok := ast.Unparen(p).(*ast.CompositeLit); ok {
		return int64(len(pl.Elts))
	}
	return 0
}

// ================= G2
func (c *Ctx) c06Index(f *ircFacts, fns []*load.FuncInfo, serverOnly func(*load.FuncInfo) bool) {
	r := c.R
	modeField := c.P.Field("ircserver", "modeCmd", "Mode")
	n := 0
	for _, fi := range fns {
		info := fi.Info()
		g := c.Graph(fi)
		mp := f.msgParam(fi)
		isParams := func(e ast.Expr) bool {
			se, ok := ast.Unparen(e).(*ast.SelectorExpr)
			if !ok || se.Sel.Name != "Params" {
				return false
			}
			id, ok := ast.Unparen(se.X).(*ast.Ident)
			return ok && mp != nil && astx.Obj(info, id) == mp
		}
		ast.Inspect(fi.Body(), func(nd ast.Node) bool {
			var X, idx, lo, hi ast.Expr
			switch x := nd.(type) {
			case *ast.IndexExpr:
				X, idx = x.X, x.Index
			case *ast.SliceExpr:
				X, lo, hi = x.X, x.Low, x.High
			default:
				return true
			}
			tv, ok := info.Types[X]
			if !ok || isParams(X) {
				return true
			}
			var arrLen int64 = -1
			switch t := tv.Type.Underlying().(type) {
			case *types.Map:
				return true
			case *types.Array:
				arrLen = t.Len()
			case *types.Pointer:
				if at, ok := t.Elem().Underlying().(*types.Array); ok {
					arrLen = at.Len()
				} else {
					return true
				}
			case *types.Slice, *types.Basic:
			default:
				return true
			}
			if _, isType := nd.(*ast.IndexExpr); isType && tv.IsType() {
				return true
			}
			n++
			node := nd.(ast.Expr)
			v := g.VertexOf(node)
			pos := c.P.Pos(node.Pos())
			construct := astx.Str(node)
			okv, why := false, ""
			sameX := func(e ast.Expr) bool { return astx.Same(info, e, X) }
			facts := g.FactsAt(v)
			facts = append(facts, leftConjuncts(g.V[maxInt(v, 0)].Node, node)...)
			// the vertex may be -1 for expressions in function literals: treat as no facts
			checkIdx := func(e ast.Expr, isSliceBound bool) (bool, string) {
				// constant
				if k, ok := astx.ConstInt(info, e); ok {
					if arrLen >= 0 {
						if (isSliceBound && k <= arrLen) || (!isSliceBound && k < arrLen) {
							return true, "constant index within the array"
						}
						return false, ""
					}
					need := k + 1
					if isSliceBound {
						need = k
					}
					if need <= 0 {
						return true, "constant 0 bound"
					}
					var b int64
					for _, fct := range facts {
						if nb, ok := lenFactBound(info, fi.Node(), fct, sameX); ok && nb > b {
							b = nb
						}
					}
					// strings.HasPrefix(operand, "lit") (also of the lower-cased operand: every ASCII character of the match
					// comes from at least one byte of the operand) proves len(operand) >= len("lit")
					for _, fct := range facts {
						hc, ok := ast.Unparen(fct.Expr).(*ast.CallExpr)
						if !ok || !fct.Val || fct.Tag != nil || len(hc.Args) != 2 {
							continue
						}
						if fn := astx.Callee(info, hc); fn == nil || !isFunc(fn, "strings", "HasPrefix") {
							continue
						}
						lit, isC := astx.ConstString(info, hc.Args[1])
						if !isC {
							continue
						}
						a0 := ast.Unparen(hc.Args[0])
						if lc, ok := a0.(*ast.CallExpr); ok {
							if lf := astx.Callee(info, lc); lf != nil && isFunc(lf, "strings", "ToLower") && len(lc.Args) == 1 {
								a0 = ast.Unparen(lc.Args[0])
							}
						}
						if sameX(a0) && int64(len(lit)) > b {
							b = int64(len(lit))
						}
					}
					if b >= need {
						return true, "dominating length test: at least " + itoa(int(b)) + " elements"
					}
					// make([]T, C) with constant length
					if d := uniqueDef(info, fi.Node(), X); d != nil {
						if mk, ok := ast.Unparen(d).(*ast.CallExpr); ok && astx.Builtin(info, mk) == "make" && len(mk.Args) >= 2 {
							if ml, ok := astx.ConstInt(info, mk.Args[1]); ok && ml >= need {
								return true, "made with constant length " + itoa(int(ml))
							}
						}
					}
					// field length invariant (modeCmd.Mode)
					if se, ok := ast.Unparen(X).(*ast.SelectorExpr); ok && astx.FieldSel(info, se) == modeField && modeField != nil {
						if ml := c.modeFieldMinLen(); ml >= need {
							return true, "field length invariant: every non-empty modeCmd.Mode is \"+\"|\"-\" + one character, and empty ones are never appended"
						}
					}
					return false, ""
				}
				// variable index
				id, isID := ast.Unparen(e).(*ast.Ident)
				if isID {
					o := astx.Obj(info, id)
					// range index / for-loop variable
					var enclosing ast.Node
					ast.Inspect(fi.Body(), func(m ast.Node) bool {
						switch y := m.(type) {
						case *ast.RangeStmt:
							if y.Body.Pos() <= node.Pos() && node.End() <= y.Body.End() {
								if kid, ok := y.Key.(*ast.Ident); ok && y.Key != nil && astx.Obj(info, kid) == o {
									enclosing = y
								}
							}
						case *ast.ForStmt:
							if y.Body.Pos() <= node.Pos() && node.End() <= y.Body.End() && y.Init != nil {
								if as, ok := y.Init.(*ast.AssignStmt); ok && len(as.Lhs) == 1 {
									if lid, ok := as.Lhs[0].(*ast.Ident); ok && astx.Obj(info, lid) == o {
										enclosing = y
									}
								}
							}
						}
						return true
					})
					switch y := enclosing.(type) {
					case *ast.RangeStmt:
						if astx.Same(info, y.X, X) {
							return true, "range index over the same operand"
						}
						// range over P with len(P) == C proven, target made with C
						if d := uniqueDef(info, fi.Node(), X); d != nil {
							if mk, ok := ast.Unparen(d).(*ast.CallExpr); ok && astx.Builtin(info, mk) == "make" && len(mk.Args) >= 2 {
								if ml, ok := astx.ConstInt(info, mk.Args[1]); ok {
									for _, fct := range g.FactsAt(g.VertexOf(y.X)) {
										if nb, ok := lenFactBound(info, fi.Node(), fct, func(e2 ast.Expr) bool { return astx.Same(info, e2, y.X) }); ok && nb == ml {
											if be, ok := ast.Unparen(fct.Expr).(*ast.BinaryExpr); ok && (be.Op == token.NEQ || be.Op == token.EQL) {
												return true, "range over an operand of proven length " + itoa(int(ml)) + ", target made with that length"
											}
										}
									}
								}
							}
						}
					case *ast.ForStmt:
						if be, ok := ast.Unparen(y.Cond).(*ast.BinaryExpr); y.Cond != nil && ok && (be.Op == token.LSS || be.Op == token.LEQ) {
							if lid, ok := ast.Unparen(be.X).(*ast.Ident); ok && astx.Obj(info, lid) == o {
								if hiC, ok := astx.ConstInt(info, be.Y); ok && arrLen >= 0 {
									if be.Op == token.LEQ {
										hiC++
									}
									if hiC <= arrLen {
										// lower bound: the init constant is >= 0
										if as, ok := y.Init.(*ast.AssignStmt); ok {
											if loC, ok := astx.ConstInt(info, as.Rhs[0]); ok && loC >= 0 {
												return true, "loop variable in [" + itoa(int(loC)) + "," + itoa(int(hiC)) + ") within the array"
											}
										}
									}
								}
								if call, ok := ast.Unparen(be.Y).(*ast.CallExpr); ok && astx.Builtin(info, call) == "len" && sameX(call.Args[0]) && be.Op == token.LSS {
									return true, "loop variable below len of the same operand"
								}
								// loop variable below len(P) with len(P) == C proven before the loop, target made with C
								if call, ok := ast.Unparen(be.Y).(*ast.CallExpr); ok && astx.Builtin(info, call) == "len" && be.Op == token.LSS && len(call.Args) == 1 {
									if d := uniqueDef(info, fi.Node(), X); d != nil {
										if mk, ok := ast.Unparen(d).(*ast.CallExpr); ok && astx.Builtin(info, mk) == "make" && len(mk.Args) >= 2 {
											if ml, ok := astx.ConstInt(info, mk.Args[1]); ok {
												P := call.Args[0]
												hv := g.VertexOf(y.Cond)
												for _, fct := range g.FactsAt(hv) {
													if nb, ok := lenFactBound(info, fi.Node(), fct, func(e2 ast.Expr) bool { return astx.Same(info, e2, P) }); ok && nb == ml {
														if be2, ok := ast.Unparen(fct.Expr).(*ast.BinaryExpr); ok && (be2.Op == token.NEQ || be2.Op == token.EQL) {
															if as, ok := y.Init.(*ast.AssignStmt); ok {
																if loC, ok := astx.ConstInt(info, as.Rhs[0]); ok && loC >= 0 && len(defsOfIn(info, y.Body, o)) == 0 {
																	return true, "loop variable below len of an operand of proven length " + itoa(int(ml)) + ", target made with that length"
																}
															}
														}
													}
												}
											}
										}
									}
								}
							}
						}
					}
					// pinned by a dominating equality test with a constant within the array
					if arrLen >= 0 {
						for _, fct := range facts {
							be, ok := ast.Unparen(fct.Expr).(*ast.BinaryExpr)
							if !ok || fct.Tag != nil || !((be.Op == token.EQL && fct.Val) || (be.Op == token.NEQ && !fct.Val)) {
								continue
							}
							for _, pr := range [][2]ast.Expr{{be.X, be.Y}, {be.Y, be.X}} {
								if vid, ok := ast.Unparen(pr[0]).(*ast.Ident); ok && astx.Obj(info, vid) == o {
									if k, ok := astx.ConstInt(info, pr[1]); ok && k >= 0 && k < arrLen && len(defsOfIn(info, fi.Body(), o)) <= 1 {
										return true, "index pinned to a constant within the array by a dominating equality test"
									}
								}
							}
						}
					}
					// pinned by a dominating disjunction of equality tests with constants within the array
					// (if x == 'a' || x == 'b' { arr[x] … })
					if arrLen >= 0 && len(defsOfIn(info, fi.Body(), o)) <= 1 {
						for _, cond := range g.CondsAt(v) {
							if cond.Tag != nil {
								continue
							}
							for _, cl := range c.clausesOf(info, fi.Node(), cond.Expr, cond.Val, 0) {
								all := len(cl) > 0
								for _, l := range cl {
									be, ok := ast.Unparen(l.E).(*ast.BinaryExpr)
									okLit := false
									if ok && ((be.Op == token.EQL && l.Pos) || (be.Op == token.NEQ && !l.Pos)) {
										for _, pr := range [][2]ast.Expr{{be.X, be.Y}, {be.Y, be.X}} {
											if vid, ok := ast.Unparen(pr[0]).(*ast.Ident); ok && astx.Obj(info, vid) == o {
												if k, ok := astx.ConstInt(info, pr[1]); ok && k >= 0 && k < arrLen {
													okLit = true
												}
											}
										}
									}
									if !okLit {
										all = false
									}
								}
								if all {
									return true, "index pinned to constants within the array by a dominating disjunction of equality tests"
								}
							}
						}
					}
					// switch-case pinning: the variable equals one of the case constants, all within the array
					if arrLen >= 0 {
						if consts := caseConstants(info, fi, node, o); len(consts) > 0 {
							all := true
							for _, k := range consts {
								if k < 0 || k >= arrLen {
									all = false
								}
							}
							if all {
								return true, "index pinned by the enclosing case to constants within the array"
							}
						}
					}
					// idx <= len(X)-1 / idx < len(X)
					for _, fct := range facts {
						be, ok := ast.Unparen(fct.Expr).(*ast.BinaryExpr)
						if !ok || fct.Tag != nil || !fct.Val {
							continue
						}
						lid, ok := ast.Unparen(be.X).(*ast.Ident)
						if !ok || astx.Obj(info, lid) != o {
							continue
						}
						if be.Op == token.LSS {
							if call, ok := ast.Unparen(be.Y).(*ast.CallExpr); ok && astx.Builtin(info, call) == "len" && sameX(call.Args[0]) {
								return true, "dominated by idx < len(operand)"
							}
						}
						if be.Op == token.LEQ {
							if b2, ok := ast.Unparen(be.Y).(*ast.BinaryExpr); ok && b2.Op == token.SUB {
								if call, ok := ast.Unparen(b2.X).(*ast.CallExpr); ok && astx.Builtin(info, call) == "len" && sameX(call.Args[0]) {
									if one, ok := astx.ConstInt(info, b2.Y); ok && one >= 1 {
										return true, "dominated by idx <= len(operand)-1"
									}
								}
							}
						}
					}
					// result of strings.Index*(X, lit) tested != -1
					if d := uniqueDef(info, fi.Node(), id); d != nil {
						if call, ok := ast.Unparen(d).(*ast.CallExpr); ok {
							if fn := astx.Callee(info, call); fn != nil && fn.Pkg() != nil && fn.Pkg().Path() == "strings" && strings.HasPrefix(fn.Name(), "Index") && len(call.Args) >= 1 && sameX(call.Args[0]) {
								for _, fct := range facts {
									if be, ok := ast.Unparen(fct.Expr).(*ast.BinaryExpr); ok && fct.Tag == nil {
										lid, isL := ast.Unparen(be.X).(*ast.Ident)
										k, isK := astx.ConstInt(info, be.Y)
										if isL && isK && astx.Obj(info, lid) == o {
											found := (be.Op == token.EQL && k == -1 && !fct.Val) || (be.Op == token.NEQ && k == -1 && fct.Val) || (be.Op == token.GTR && k == -1 && fct.Val) || (be.Op == token.GEQ && k == 0 && fct.Val)
											if found {
												return true, "index is the checked result of strings." + fn.Name() + " on the same operand"
											}
										}
									}
								}
							}
						}
					}
				}
				// idx + len(lit) where idx is a checked strings.Index result and lit is the searched literal's prefix
				if be, ok := ast.Unparen(e).(*ast.BinaryExpr); ok && be.Op == token.ADD {
					if okI, _ := checkIdxRef(c, fi, g, facts, info, be.X, X); okI {
						if add, ok := astx.ConstInt(info, be.Y); ok {
							if lit := indexLiteralLen(info, fi, be.X); lit >= add {
								return true, "checked strings.Index result plus at most the length of the searched literal"
							}
						}
					}
				}
				// len(P) after HasPrefix(g(X), P)
				if call, ok := ast.Unparen(e).(*ast.CallExpr); ok && astx.Builtin(info, call) == "len" && isSliceBound {
					for _, fct := range facts {
						hc, ok := ast.Unparen(fct.Expr).(*ast.CallExpr)
						if !ok || !fct.Val || fct.Tag != nil || len(hc.Args) != 2 {
							continue
						}
						fn := astx.Callee(info, hc)
						if fn == nil || !isFunc(fn, "strings", "HasPrefix") || !astx.Same(info, hc.Args[1], call.Args[0]) {
							continue
						}
						a0 := ast.Unparen(hc.Args[0])
						if lc, ok := a0.(*ast.CallExpr); ok {
							if lf := astx.Callee(info, lc); lf != nil && isFunc(lf, "strings", "ToLower") && len(lc.Args) == 1 {
								a0 = ast.Unparen(lc.Args[0])
							}
						}
						if sameX(a0) {
							return true, "slice bound len(P) after strings.HasPrefix(operand, P) (lower-casing cannot shorten an ASCII prefix match)"
						}
					}
				}
				return false, ""
			}
			// inside the comparator passed to sort.Slice(X, func(a, b int) bool {…}) the indexes a, b are valid for X
			if idx != nil {
				if iid, isID := ast.Unparen(idx).(*ast.Ident); isID {
					ast.Inspect(fi.Body(), func(m ast.Node) bool {
						call, isC := m.(*ast.CallExpr)
						if !isC || len(call.Args) != 2 {
							return true
						}
						fn := astx.Callee(info, call)
						if fn == nil || fn.Pkg() == nil || fn.Pkg().Path() != "sort" || !strings.HasPrefix(fn.Name(), "Slice") {
							return true
						}
						lit, isL := ast.Unparen(call.Args[1]).(*ast.FuncLit)
						if !isL || !(lit.Body.Pos() <= node.Pos() && node.End() <= lit.Body.End()) || !astx.Same(info, call.Args[0], X) {
							return true
						}
						for _, fld := range lit.Type.Params.List {
							for _, nm := range fld.Names {
								if info.Defs[nm] == astx.Obj(info, iid) {
									okv, why = true, "index supplied by sort.Slice for the same slice"
								}
							}
						}
						return true
					})
				}
			}
			// the key of `for k := range Y` indexes a slice that was made with len(Y)
			if idx != nil && !okv {
				if iid, isID := ast.Unparen(idx).(*ast.Ident); isID {
					ast.Inspect(fi.Body(), func(m ast.Node) bool {
						rs, isR := m.(*ast.RangeStmt)
						if !isR || rs.Key == nil || !(rs.Body.Pos() <= node.Pos() && node.End() <= rs.Body.End()) {
							return true
						}
						kid, isK := rs.Key.(*ast.Ident)
						if !isK || info.Defs[kid] == nil || info.Defs[kid] != astx.Obj(info, iid) {
							return true
						}
						if d := uniqueDef(info, fi.Node(), X); d != nil {
							if mk, isMk := ast.Unparen(d).(*ast.CallExpr); isMk && astx.Builtin(info, mk) == "make" && len(mk.Args) == 2 {
								if lc, isL := ast.Unparen(mk.Args[1]).(*ast.CallExpr); isL && astx.Builtin(info, lc) == "len" && len(lc.Args) == 1 && astx.Same(info, lc.Args[0], rs.X) {
									okv, why = true, "range index over the value whose length the slice was made with"
								}
							}
						}
						return true
					})
				}
			}
			// idx < len(A) where A was made with len(X): idx is valid for X as well
			if idx != nil && !okv {
				if iid, isID := ast.Unparen(idx).(*ast.Ident); isID {
					for _, fct := range facts {
						be, ok := ast.Unparen(fct.Expr).(*ast.BinaryExpr)
						if !ok || fct.Tag != nil || !fct.Val || be.Op != token.LSS {
							continue
						}
						lid, ok := ast.Unparen(be.X).(*ast.Ident)
						if !ok || astx.Obj(info, lid) != astx.Obj(info, iid) {
							continue
						}
						lc, ok := ast.Unparen(be.Y).(*ast.CallExpr)
						if !ok || astx.Builtin(info, lc) != "len" || len(lc.Args) != 1 {
							continue
						}
						if d := uniqueDef(info, fi.Node(), lc.Args[0]); d != nil {
							if mk, isMk := ast.Unparen(d).(*ast.CallExpr); isMk && astx.Builtin(info, mk) == "make" && len(mk.Args) == 2 {
								if l2, isL := ast.Unparen(mk.Args[1]).(*ast.CallExpr); isL && astx.Builtin(info, l2) == "len" && len(l2.Args) == 1 && astx.Same(info, l2.Args[0], X) {
									okv, why = true, "index below the length of a slice that was made with this operand's length"
								}
							}
						}
					}
				}
			}
			switch {
			case okv:
			case idx != nil:
				okv, why = checkIdx(idx, false)
			default:
				okv, why = true, "slice bounds"
				for _, b := range []ast.Expr{lo, hi} {
					if b == nil {
						continue
					}
					if ok2, w2 := checkIdx(b, true); ok2 {
						why = w2
					} else {
						okv = false
					}
				}
			}
			if okv {
				r.Ok("C06.G2", fi.Name(), construct, pos, why)
				return true
			}
			// frozen exceptions
			switch {
			case fi.Name() == "ircserver.(*IRCServer).send" && strings.Contains(construct, "len(reply.Messages)-1"):
				r.Except("C06.G2", fi.Name(), construct, pos, "guarded by reply.lastmsg == msg; lastmsg is assigned only directly after an append to reply.Messages in this function")
			case fi.Name() == "ircserver.(*IRCServer).generateCaptchaURL" && strings.Contains(construct, "auth[:8]"):
				okLen := c.authLongEnough()
				if okLen {
					r.Except("C06.G2", fi.Name(), construct, pos, "the acting session was created by the HTTP API with a 256 character secret (checked: handleCreateSession formats 128 random bytes with %x); services pseudo-clients (empty secret) never act, their ids carry Reply != 0 and are never the Session of an entry")
				} else {
					r.Fail("C06.G2", fi.Name(), construct, pos, "the session secret is sliced to 8 bytes but the API no longer provably creates secrets of at least 8 bytes")
				}
			case c.attribName(fi) == "main.(*FSM).applyProto" && strings.HasSuffix(construct, ".Data[0]"):
				if c.applyProtoAfterDecode() {
					r.Except("C06.G2", fi.Name(), construct, pos, "every call of applyProto is dominated by robust.NewMessageFromBytes on the entry's data, which does not return for empty data (checked: call sites)")
				} else {
					r.Fail("C06.G2", fi.Name(), construct, pos, "l.Data[0] is read although applyProto is no longer provably called only after the entry's data was decoded")
				}
			case strings.HasSuffix(construct, ".IRCParams()[0]"):
				if c.ircParamsNonEmpty() {
					r.Except("C06.G2", fi.Name(), construct, pos, "IRCParams always returns append([]string{modeStr}, …): at least one element (checked)")
				} else {
					r.Fail("C06.G2", fi.Name(), construct, pos, "IRCParams no longer provably returns at least one element")
				}
			default:
				if serverOnly(fi) && false {
					r.Assume("C06.G2", fi.Name(), construct, pos, "services lines are protocol-conforming")
				} else {
					r.Fail("C06.G2", fi.Name(), construct, pos, "no idiom of the closed list bounds this index / slice expression (constant within array, loop or range variable, case-pinned constant, dominating length test, checked strings.Index result, HasPrefix + len, constant make length, field length invariant): possible index out of range panic while an entry is applied")
				}
			}
			return true
		})
	}
	r.Check(n >= 40, "C06.G2", "scope", "index and slice expressions enumerated", "-", itoa(n), "fewer index expressions than expected")
}

func checkIdxRef(c *Ctx, fi *load.FuncInfo, g *cfgx.Graph, facts []cfgx.Fact, info *types.Info, e ast.Expr, X ast.Expr) (bool, string) {
	id, ok := ast.Unparen(e).(*ast.Ident)
	if !ok {
		return false, ""
	}
	o := astx.Obj(info, id)
	d := uniqueDef(info, fi.Node(), id)
	if d == nil {
		return false, ""
	}
	call, ok := ast.Unparen(d).(*ast.CallExpr)
	if !ok {
		return false, ""
	}
	fn := astx.Callee(info, call)
	if fn == nil || fn.Pkg() == nil || fn.Pkg().Path() != "strings" || !strings.HasPrefix(fn.Name(), "Index") || len(call.Args) < 1 || !astx.Same(info, call.Args[0], X) {
		return false, ""
	}
	for _, fct := range facts {
		if be, ok := ast.Unparen(fct.Expr).(*ast.BinaryExpr); ok && fct.Tag == nil {
			lid, isL := ast.Unparen(be.X).(*ast.Ident)
			k, isK := astx.ConstInt(info, be.Y)
			if isL && isK && astx.Obj(info, lid) == o {
				if (be.Op == token.EQL && k == -1 && !fct.Val) || (be.Op == token.NEQ && k == -1 && fct.Val) || (be.Op == token.GTR && k == -1 && fct.Val) || (be.Op == token.GEQ && k == 0 && fct.Val) {
					return true, ""
				}
			}
		}
	}
	return false, ""
}

// indexLiteralLen: length of the constant searched for by the strings.Index call defining e.
func indexLiteralLen(info *types.Info, fi *load.FuncInfo, e ast.Expr) int64 {
	d := uniqueDef(info, fi.Node(), e)
	if d == nil {
		return -1
	}
	call, ok := ast.Unparen(d).(*ast.CallExpr)
	if !ok || len(call.Args) != 2 {
		return -1
	}
	if s, ok := astx.ConstString(info, call.Args[1]); ok {
		return int64(len(s))
	}
	return -1
}

// caseConstants: when node lies in the body of a case clause of a switch whose tag is the variable o, the clause's constants.
func caseConstants(info *types.Info, fi *load.FuncInfo, node ast.Node, o types.Object) []int64 {
	var out []int64
	ast.Inspect(fi.Body(), func(m ast.Node) bool {
		sw, ok := m.(*ast.SwitchStmt)
		if !ok || sw.Tag == nil {
			return true
		}
		tid, ok := ast.Unparen(sw.Tag).(*ast.Ident)
		if !ok || astx.Obj(info, tid) != o {
			return true
		}
		for i, cl := range sw.Body.List {
			cc := cl.(*ast.CaseClause)
			inBody := false
			for _, st := range cc.Body {
				if st.Pos() <= node.Pos() && node.End() <= st.End() {
					inBody = true
				}
			}
			if !inBody || cc.List == nil {
				continue
			}
			// no fallthrough into this clause
			if i > 0 {
				prev := sw.Body.List[i-1].(*ast.CaseClause)
				if len(prev.Body) > 0 {
					if b, ok := prev.Body[len(prev.Body)-1].(*ast.BranchStmt); ok && b.Tok == token.FALLTHROUGH {
						return true
					}
				}
			}
			var ks []int64
			okAll := true
			for _, e := range cc.List {
				k, ok := astx.ConstInt(info, e)
				if !ok {
					okAll = false
				}
				ks = append(ks, k)
			}
			if okAll {
				out = ks
			}
		}
		return true
	})
	return out
}

// modeFieldMinLen: every assignment to modeCmd.Mode is a constant of length >= 1 plus string(<char>) (length >= 1),
// and a modeCmd is appended to a result only after Mode == "" was excluded. Returns the proven minimal length (2) or 0.
func (c *Ctx) modeFieldMinLen() int64 {
	fv := c.P.Field("ircserver", "modeCmd", "Mode")
	if fv == nil {
		return 0
	}
	min := int64(math.MaxInt32)
	for _, w := range c.writersOf(fv) {
		info := w.Info()
		ok := true
		ast.Inspect(w.Body(), func(n ast.Node) bool {
			as, isAs := n.(*ast.AssignStmt)
			if !isAs {
				return true
			}
			for i, l := range as.Lhs {
				se, isSel := ast.Unparen(l).(*ast.SelectorExpr)
				if !isSel || astx.FieldSel(info, se) != fv || len(as.Rhs) != len(as.Lhs) {
					continue
				}
				be, isBE := ast.Unparen(as.Rhs[i]).(*ast.BinaryExpr)
				if !isBE || be.Op != token.ADD {
					ok = false
					continue
				}
				s, isC := astx.ConstString(info, be.X)
				conv, isConv := ast.Unparen(be.Y).(*ast.CallExpr)
				if !isC || len(s) < 1 || !isConv || !astx.IsConversion(info, conv) {
					ok = false
					continue
				}
				if int64(len(s))+1 < min {
					min = int64(len(s)) + 1
				}
			}
			return true
		})
		if !ok {
			return 0
		}
		// literal writes (composite literal keys) are not expected
		for _, cl := range compositeLitsOf(info, w.Body(), pathIrcsrv, "modeCmd") {
			if litField(cl, "Mode") != nil {
				return 0
			}
		}
	}
	// appended only when non-empty
	nm := c.P.Func("ircserver.normalizeModes")
	if nm == nil {
		return 0
	}
	info := nm.Info()
	g := c.Graph(nm)
	for _, v := range g.Nodes() {
		as, ok := v.Node.(*ast.AssignStmt)
		if !ok || len(as.Rhs) != 1 {
			continue
		}
		call, ok := ast.Unparen(as.Rhs[0]).(*ast.CallExpr)
		if !ok || astx.Builtin(info, call) != "append" {
			continue
		}
		nonEmpty := false
		for _, fct := range g.FactsAt(v.ID) {
			if be, ok := ast.Unparen(fct.Expr).(*ast.BinaryExpr); ok && fct.Tag == nil {
				if se, ok := ast.Unparen(be.X).(*ast.SelectorExpr); ok && astx.FieldSel(info, se) == fv {
					if s, ok := astx.ConstString(info, be.Y); ok && s == "" && ((be.Op == token.EQL && !fct.Val) || (be.Op == token.NEQ && fct.Val)) {
						nonEmpty = true
					}
				}
			}
		}
		if !nonEmpty {
			return 0
		}
	}
	if min == math.MaxInt32 {
		return 0
	}
	return min
}

func (c *Ctx) authLongEnough() bool {
	fi := c.P.Func("api.(*HTTP).handleCreateSession")
	if fi == nil {
		return false
	}
	info := fi.Info()
	for _, cl := range compositeLitsOf(info, fi.Body(), pathRobust, "Message") {
		d := litField(cl, "Data")
		if d == nil {
			continue
		}
		def := uniqueDef(info, fi.Node(), d)
		if def == nil {
			continue
		}
		call, ok := ast.Unparen(def).(*ast.CallExpr)
		if !ok {
			continue
		}
		fn := astx.Callee(info, call)
		var raw ast.Expr
		switch {
		case fn != nil && isFunc(fn, "fmt", "Sprintf") && len(call.Args) == 2:
			if s, ok := astx.ConstString(info, call.Args[0]); ok && s == "%x" {
				raw = call.Args[1]
			}
		case fn != nil && isFunc(fn, "encoding/hex", "EncodeToString") && len(call.Args) == 1:
			raw = call.Args[0]
		}
		if raw == nil {
			continue
		}
		if bd := uniqueDef(info, fi.Node(), raw); bd != nil {
			if mk, ok := ast.Unparen(bd).(*ast.CallExpr); ok && astx.Builtin(info, mk) == "make" && len(mk.Args) == 2 {
				if n, ok := astx.ConstInt(info, mk.Args[1]); ok && n >= 4 {
					return true
				}
			}
		}
	}
	return false
}

func (c *Ctx) ircParamsNonEmpty() bool {
	fi := c.P.Func("ircserver.(modeCmds).IRCParams")
	if fi == nil {
		return false
	}
	info := fi.Info()
	ok := false
	n := 0
	for _, rv := range c.Graph(fi).Returns() {
		n++
		rs := rv.Node.(*ast.ReturnStmt)
		if len(rs.Results) == 1 {
			if call, isC := ast.Unparen(rs.Results[0]).(*ast.CallExpr); isC && astx.Builtin(info, call) == "append" && len(call.Args) >= 1 {
				if cl, isL := ast.Unparen(call.Args[0]).(*ast.CompositeLit); isL && len(cl.Elts) >= 1 {
					ok = true
				}
			}
		}
	}
	return ok && n == 1
}

// loopVarBelowLen: idx is the variable of an enclosing `for idx := <const >= 0>; idx < len(X); idx++ {…}` whose body
// does not assign idx, and node lies in that body.
func loopVarBelowLen(info *types.Info, fi *load.FuncInfo, node ast.Node, idx ast.Expr, isX func(ast.Expr) bool) bool {
	id, ok := ast.Unparen(idx).(*ast.Ident)
	if !ok {
		return false
	}
	o := astx.Obj(info, id)
	found := false
	ast.Inspect(fi.Body(), func(m ast.Node) bool {
		y, ok := m.(*ast.ForStmt)
		if !ok || y.Init == nil || y.Cond == nil || y.Post == nil || !(y.Body.Pos() <= node.Pos() && node.End() <= y.Body.End()) {
			return true
		}
		as, ok := y.Init.(*ast.AssignStmt)
		if !ok || len(as.Lhs) != 1 || len(as.Rhs) != 1 {
			return true
		}
		if lid, ok := as.Lhs[0].(*ast.Ident); !ok || astx.Obj(info, lid) != o {
			return true
		}
		if lo, ok := astx.ConstInt(info, as.Rhs[0]); !ok || lo < 0 {
			return true
		}
		be, ok := ast.Unparen(y.Cond).(*ast.BinaryExpr)
		if !ok || be.Op != token.LSS {
			return true
		}
		if lid, ok := ast.Unparen(be.X).(*ast.Ident); !ok || astx.Obj(info, lid) != o {
			return true
		}
		call, ok := ast.Unparen(be.Y).(*ast.CallExpr)
		if !ok || astx.Builtin(info, call) != "len" || !isX(call.Args[0]) {
			return true
		}
		if inc, ok := y.Post.(*ast.IncDecStmt); !ok || inc.Tok != token.INC {
			return true
		}
		if len(defsOfIn(info, y.Body, o)) > 0 {
			return true
		}
		found = true
		return true
	})
	return found
}

// defsOfIn lists assignments to obj inside root (including ++/--).
func defsOfIn(info *types.Info, root ast.Node, obj types.Object) []ast.Node {
	var out []ast.Node
	ast.Inspect(root, func(n ast.Node) bool {
		switch x := n.(type) {
		case *ast.AssignStmt:
			for _, l := range x.Lhs {
				if id, ok := l.(*ast.Ident); ok && astx.Obj(info, id) == obj {
					out = append(out, x)
				}
			}
		case *ast.IncDecStmt:
			if id, ok := ast.Unparen(x.X).(*ast.Ident); ok && astx.Obj(info, id) == obj {
				out = append(out, x)
			}
		case *ast.RangeStmt:
			for _, e := range []ast.Expr{x.Key, x.Value} {
				if id, ok := e.(*ast.Ident); ok && astx.Obj(info, id) == obj {
					out = append(out, x)
				}
			}
		}
		return true
	})
	return out
}

// applyProtoAfterDecode: every call site of applyProto in package main is dominated by a call of robust.NewMessageFromBytes.
func (c *Ctx) applyProtoAfterDecode() bool {
	ap := c.P.Func("main.(*FSM).applyProto")
	if ap == nil {
		return false
	}
	n := 0
	for _, fi := range c.P.FuncsIn("main") {
		if fi.Body() == nil {
			continue
		}
		info := fi.Info()
		g := c.Graph(fi)
		for _, v := range g.Nodes() {
			for _, call := range astx.Calls(v.Node, false) {
				if astx.Callee(info, call) != ap.Obj {
					continue
				}
				n++
				if !g.DominatedBy(v.ID, func(x *cfgx.Vertex) bool {
					return containsCall(info, x, func(fn *types.Func, _ *ast.CallExpr) bool { return isFunc(fn, "robust", "NewMessageFromBytes") })
				}) {
					return false
				}
			}
		}
	}
	return n > 0
}
