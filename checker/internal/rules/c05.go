package rules

import (
	"go/ast"
	"go/token"
	"go/types"
	"strings"

	"verif/checker/internal/astx"
	"verif/checker/internal/cfgx"
	"verif/checker/internal/load"
)

func init() { register("C05", c05) }

const pathLevelDB = "github.com/syndtr/goleveldb/leveldb"

// amwLike computes the functions of package api that behave like
// applyMessageWait for their callers: applyMessageWait itself plus wrappers
// whose every return hands back the result of such a call or a non-nil error.
func (c *Ctx) amwLike() map[*types.Func]bool {
	set := map[*types.Func]bool{}
	amw := c.P.Func("api.(*HTTP).applyMessageWait")
	if amw == nil {
		return set
	}
	set[amw.Obj] = true
	for changed := true; changed; {
		changed = false
		for _, fi := range c.P.FuncsIn("api") {
			if fi.Obj == nil || set[fi.Obj] || fi.Body() == nil {
				continue
			}
			sig := fi.Obj.Type().(*types.Signature)
			if sig.Results().Len() != 1 || sig.Results().At(0).Type().String() != "error" {
				continue
			}
			info := fi.Info()
			wrapper, ok := false, true
			inspectNoLit(fi.Body(), func(n ast.Node) bool {
				rs, isRet := n.(*ast.ReturnStmt)
				if !isRet || len(rs.Results) != 1 {
					return true
				}
				if call, isCall := ast.Unparen(rs.Results[0]).(*ast.CallExpr); isCall {
					if fn := astx.Callee(info, call); fn != nil && set[fn] {
						wrapper = true
						return true
					}
				}
				if isNilIdent(info, rs.Results[0]) {
					ok = false // a nil return that is not the commit result
				}
				return true
			})
			if wrapper && ok {
				set[fi.Obj] = true
				changed = true
			}
		}
	}
	return set
}

func c05(c *Ctx) {
	r := c.R
	r.Explanation = "Partial: (A1) every HTTP write handler acknowledges (returns without an error answer or a hand-off to the leader) only on paths that pass the nil-error edge of applyMessageWait for the proposal they built; (A2) applyMessageWait returns nil only after the raft future completed without error and the FSM response is not an error, with no goroutine hand-off; (A3) raft's log store, stable store and snapshot store are the LevelDB/file stores under -raftdir and FSM.store is that same log store; the stores are opened from files. (A4) the delivery loop of GetMessages hands a batch to the connection only on the false edge of 'batch older than the client's position' and after advancing the position to it. Fail-over, restart and exactly-once-everywhere behaviour of raft + LevelDB under faults are not decided."
	r.Rules = []string{"C05.A1 ack-after-commit", "C05.A2 commit means committed-and-applied", "C05.A3 durable wiring", "C05.A4 delivery loop never goes backwards", "C05.A5 error discipline of the proposing handlers", "C05.A6 the hand-off answers", "C05.A7 proposals are stamped and numbered"}
	r.Assumptions = []string{"hashicorp/raft and goleveldb honour their documented durability contracts"}

	amw := c.amwLike()
	if len(amw) == 0 {
		r.Break("api.(*HTTP).applyMessageWait not found")
		return
	}
	isAMW := func(fn *types.Func, _ *ast.CallExpr) bool { return amw[fn] }
	isHTTPError := func(fn *types.Func, _ *ast.CallExpr) bool { return isFunc(fn, "net/http", "Error") }
	isProxy := func(fn *types.Func, _ *ast.CallExpr) bool {
		return isFunc(fn, "api", "(*HTTP).maybeProxyToLeader")
	}

	// A1
	for _, fi := range c.P.FuncsIn("api") {
		if fi.Obj == nil || fi.Body() == nil || amw[fi.Obj] {
			continue
		}
		calls := callsIn(fi, isAMW)
		if len(calls) == 0 {
			continue
		}
		r.Functions++
		info := fi.Info()
		// no commit call inside a go statement or a function literal
		ast.Inspect(fi.Body(), func(n ast.Node) bool {
			switch x := n.(type) {
			case *ast.GoStmt:
				for _, call := range astx.Calls(x, true) {
					if fn := astx.Callee(info, call); fn != nil && amw[fn] {
						r.Fail("C05.A1", fi.Name(), "go statement around "+astx.Str(call.Fun), c.P.Pos(x.Pos()),
							"the commit call runs in a goroutine: the handler can acknowledge before (or without) the entry being committed")
					}
				}
			case *ast.FuncLit:
				for _, call := range astx.Calls(x.Body, true) {
					if fn := astx.Callee(info, call); fn != nil && amw[fn] {
						r.Fail("C05.A1", fi.Name(), "function literal around "+astx.Str(call.Fun), c.P.Pos(x.Pos()),
							"the commit call is inside a function literal: its result is not on the handler's acknowledging path")
					}
				}
			}
			return true
		})
		g := c.Graph(fi)
		// edges on which a commit is known to have succeeded
		okEdges := map[*cfgx.Edge]bool{}
		for _, v := range g.V {
			if len(v.Succ) != 2 || v.Succ[0].Cond == nil {
				continue
			}
			for _, e := range v.Succ {
				for _, f := range e.Facts() {
					x, isNil, ok := nilCompare(info, f)
					if !ok || !isNil {
						continue
					}
					id, ok := ast.Unparen(x).(*ast.Ident)
					if !ok {
						continue
					}
					obj := astx.Obj(info, id)
					defs := defsOf(info, fi.Node(), obj)
					all := len(defs) > 0
					for _, d := range defs {
						call, ok := ast.Unparen(d).(*ast.CallExpr)
						if !ok {
							all = false
							break
						}
						if fn := astx.Callee(info, call); fn == nil || !amw[fn] {
							all = false
						}
					}
					if all {
						okEdges[e] = true
					}
				}
			}
		}
		// duplicate short-cut (C10): true edge of LastPostMessage(..) == req.ClientMessageId
		dupEdges := map[*cfgx.Edge]bool{}
		for _, v := range g.V {
			if len(v.Succ) != 2 || v.Succ[0].Cond == nil {
				continue
			}
			for _, e := range v.Succ {
				for _, f := range cfgx.ExpandCond(e.Cond, e.Val) {
					if f.Val && f.Tag == nil && isDupTest(info, f.Expr) {
						dupEdges[e] = true
					}
				}
			}
		}
		blockedV := func(id int) bool {
			v := g.V[id]
			return containsCall(info, v, isHTTPError) || containsCall(info, v, isProxy) || g.V[id].Kind == "panic"
		}
		blockedE := func(e *cfgx.Edge) bool { return okEdges[e] || dupEdges[e] }
		fromEntry := g.Reach(g.Entry, blockedV, blockedE)
		lits := compositeLitsOf(info, fi.Body(), pathRobust, "Message")
		if len(lits) == 0 {
			// the proposal is built by a callee (applyConfig): the call itself is the proposal site
			for _, call := range calls {
				lits = append(lits, &ast.CompositeLit{Lbrace: call.Pos(), Rbrace: call.End() - 1})
			}
		}
		for _, cl := range lits {
			v := g.VertexAt(cl.Pos(), cl.End())
			if v < 0 {
				continue
			}
			construct := "proposal " + litSummary(info, cl)
			if !fromEntry[v] {
				r.Ok("C05.A1", fi.Name(), construct, c.P.Pos(cl.Pos()), "proposal only reachable after an earlier commit/duplicate/err edge")
				continue
			}
			toExit := g.Reach(v, blockedV, blockedE)
			if toExit[g.Exit] {
				r.Fail("C05.A1", fi.Name(), construct, c.P.Pos(cl.Pos()),
					"a path from this proposal reaches a normal return without passing the nil-error edge of applyMessageWait, an error answer (http.Error) or a hand-off to the leader: the request is acknowledged although the entry was not committed")
			} else {
				r.Ok("C05.A1", fi.Name(), construct, c.P.Pos(cl.Pos()), "every return after the proposal passes commit-ok / http.Error / proxy")
			}
		}
		// the commit result must actually be tested: every AMW call's result flows into a tested variable or is returned
		for _, call := range calls {
			v := g.VertexOf(call)
			if v < 0 {
				continue
			}
			switch n := g.V[v].Node.(type) {
			case *ast.ExprStmt:
				r.Fail("C05.A1", fi.Name(), "result of "+astx.Str(call.Fun), c.P.Pos(call.Pos()), "the error returned by the commit call is discarded")
			case *ast.AssignStmt:
				blank := true
				for _, l := range n.Lhs {
					if id, ok := l.(*ast.Ident); !ok || id.Name != "_" {
						blank = false
					}
				}
				if blank {
					r.Fail("C05.A1", fi.Name(), "result of "+astx.Str(call.Fun), c.P.Pos(call.Pos()), "the error returned by the commit call is assigned to _")
				}
			}
		}
	}
	r.Floor("C05.A1", 5)

	c.c05A2()
	c.c05A3()
	c.deliveryLoop("C05.A4")
	c.c05API()
}

// deliveryLoop (C05.A4 = C04.P2): the delivery loop hands a batch to the client connection only when it is not older than
// the client's position, and advances the position before it does ("delivers that message exactly once").
func (c *Ctx) deliveryLoop(rule string) {
	r := c.R
	gm := c.MustFunc("api.(*HTTP).getMessages")
	if gm == nil {
		return
	}
	info := gm.Info()
	g := c.Graph(gm)
	// the position parameter: the robust.Id typed parameter
	var pos types.Object
	for _, fld := range gm.FuncType().Params.List {
		for _, nm := range fld.Names {
			if o := info.Defs[nm]; o != nil && astx.IsNamed(o.Type(), pathRobust, "Id") {
				pos = o
			}
		}
	}
	if pos == nil {
		r.Break(rule + ": getMessages has no robust.Id parameter")
		return
	}
	// the GetNext call and the variable holding its result
	var next *ast.CallExpr
	var res types.Object
	ast.Inspect(gm.Body(), func(n ast.Node) bool {
		as, ok := n.(*ast.AssignStmt)
		if !ok || len(as.Lhs) != 1 || len(as.Rhs) != 1 {
			return true
		}
		call, ok := ast.Unparen(as.Rhs[0]).(*ast.CallExpr)
		if !ok {
			return true
		}
		if fn := astx.Callee(info, call); fn != nil && isFunc(fn, "outputstream", "(*OutputStream).GetNext") {
			if id, ok := as.Lhs[0].(*ast.Ident); ok {
				next, res = call, astx.Obj(info, id)
			}
		}
		return true
	})
	if next == nil || res == nil {
		r.Break(rule + ": no `x = output.GetNext(...)` in getMessages")
		return
	}
	nextV := g.VertexOf(next)
	rooted := func(e ast.Expr, o types.Object) bool {
		b := astx.BaseIdent(e)
		return b != nil && astx.Obj(info, b) == o
	}
	n := 0
	for _, v := range g.Nodes() {
		send, ok := v.Node.(*ast.SendStmt)
		if !ok || !astx.Mentions(info, send.Value, res) {
			continue
		}
		// only sends that GetNext's result can reach
		if !g.Reach(nextV, nil, nil)[v.ID] {
			continue
		}
		n++
		fresh := false
		for _, fct := range g.FactsAt(v.ID) {
			be, ok := ast.Unparen(fct.Expr).(*ast.BinaryExpr)
			if !ok || fct.Tag != nil {
				continue
			}
			op := be.Op
			x, y := be.X, be.Y
			if rooted(y, res) && rooted(x, pos) {
				// normalise to  result OP position
				x, y = y, x
				switch op {
				case token.LSS:
					op = token.GTR
				case token.LEQ:
					op = token.GEQ
				case token.GTR:
					op = token.LSS
				case token.GEQ:
					op = token.LEQ
				}
			}
			if !rooted(x, res) || !rooted(y, pos) {
				continue
			}
			if ((op == token.LSS || op == token.LEQ) && !fct.Val) || ((op == token.GTR || op == token.GEQ) && fct.Val) {
				fresh = true
			}
		}
		r.Check(fresh, rule, gm.Name(), "a batch is delivered only if it is not older than the client's position", c.P.Pos(send.Pos()), "the send is dominated by the false edge of <batch id> < <position>",
			"a batch returned by GetNext is handed to the client although it may be older than what the client has already seen (a node that is behind after a restart or fail-over): messages are delivered twice")
		// the position advances to the delivered batch on every path from GetNext to the send
		adv := func(x int) bool {
			as, ok := g.V[x].Node.(*ast.AssignStmt)
			if !ok {
				return false
			}
			for i, l := range as.Lhs {
				if id, ok := l.(*ast.Ident); ok && astx.Obj(info, id) == pos && len(as.Rhs) == len(as.Lhs) && rooted(as.Rhs[i], res) {
					return true
				}
			}
			return false
		}
		skipped := g.Reach(nextV, adv, nil)[v.ID]
		r.Check(!skipped, rule, gm.Name(), "the position advances to the batch before it is delivered", c.P.Pos(send.Pos()), "<position> = <batch>[0].Id on every path from GetNext to the send",
			"a batch is delivered without the position being advanced to it: the next GetNext returns the same batch again and the client receives it repeatedly")
	}
	// the back-off branch is taken only for strictly older batches: on every edge on which the batch may carry the
	// position's own id (<=, ==) a delivery must still be reachable before the next GetNext — the remainder of that batch
	// is what the client is waiting for. (go/cfg has no vertices for continue/break, so the rule is stated on edges.)
	var sendVs []int
	for _, v := range g.Nodes() {
		if send, ok := v.Node.(*ast.SendStmt); ok && astx.Mentions(info, send.Value, res) && g.Reach(nextV, nil, nil)[v.ID] {
			sendVs = append(sendVs, v.ID)
		}
	}
	for _, v := range g.V {
		for _, e := range v.Succ {
			if e.Cond == nil || e.Tag != nil || !g.Reach(nextV, nil, nil)[e.From] {
				continue
			}
			mayEqual := false
			for _, fct := range cfgx.ExpandCond(e.Cond, e.Val) {
				be, ok := ast.Unparen(fct.Expr).(*ast.BinaryExpr)
				if !ok {
					continue
				}
				op, x, y := be.Op, be.X, be.Y
				if rooted(y, res) && rooted(x, pos) {
					x, y = y, x
					switch op {
					case token.LSS:
						op = token.GTR
					case token.LEQ:
						op = token.GEQ
					case token.GTR:
						op = token.LSS
					case token.GEQ:
						op = token.LEQ
					}
				}
				if !rooted(x, res) || !rooted(y, pos) {
					continue
				}
				// the edge is taken (also) when batch id == position id, and it is the "older or equal" side
				if (op == token.LEQ && fct.Val) || (op == token.GTR && !fct.Val) || (op == token.EQL && fct.Val) || (op == token.NEQ && !fct.Val) {
					mayEqual = true
				}
			}
			if !mayEqual {
				continue
			}
			reach := g.Reach(e.To, func(x int) bool { return x == nextV }, nil)
			can := false
			for _, sv := range sendVs {
				if reach[sv] || sv == e.To {
					can = true
				}
			}
			r.Check(can, rule, gm.Name(), "a batch with the position's own id can still be delivered", c.P.Pos(e.Cond.Pos()), "a send is reachable from the `<=` / `==` edge before the next GetNext",
				"a batch with the position's own id is held back (the staleness test is not strict): the remainder of the reply the client was reading is never delivered")
		}
	}
	// the client's position is only ever moved to a batch that is being delivered: every assignment to it in the reader takes
	// its value from GetNext's result (clamping it to what this node has rewinds the client)
	{
		nAsg := 0
		for _, v := range g.Nodes() {
			as, ok := v.Node.(*ast.AssignStmt)
			if !ok {
				continue
			}
			for i, l := range as.Lhs {
				id, ok := l.(*ast.Ident)
				if !ok || astx.Obj(info, id) != pos || as.Tok == token.DEFINE && info.Defs[id] != nil {
					continue
				}
				nAsg++
				okSrc := len(as.Rhs) == len(as.Lhs) && rooted(as.Rhs[i], res)
				r.Check(okSrc, rule, gm.Name(), "the position moves only to a delivered batch", c.P.Pos(as.Pos()), "<position> = <batch>[…].Id",
					"the reader overwrites the client's position with something that is not the batch it is about to deliver (e.g. the newest message this node has): on a node that is behind, the client is rewound and receives messages it already has")
			}
		}
		_ = nAsg
	}
	// the first element of GetNext's result is read only where the result is known to be non-empty (GetNext returns an empty
	// slice when the request was cancelled)
	{
		nIdx := 0
		ast.Inspect(gm.Body(), func(m ast.Node) bool {
			ie, ok := m.(*ast.IndexExpr)
			if !ok {
				return true
			}
			id, ok := ast.Unparen(ie.X).(*ast.Ident)
			if !ok || astx.Obj(info, id) != res {
				return true
			}
			if k, ok := astx.ConstInt(info, ie.Index); !ok || k != 0 {
				return true
			}
			v := g.VertexOf(ie)
			if v < 0 || !g.Reach(nextV, nil, nil)[v] {
				return true
			}
			nIdx++
			nonEmpty := false
			for _, fct := range append(g.FactsAt(v), leftConjuncts(g.V[v].Node, ie)...) {
				be, ok := ast.Unparen(fct.Expr).(*ast.BinaryExpr)
				if !ok || fct.Tag != nil {
					continue
				}
				call, ok := ast.Unparen(be.X).(*ast.CallExpr)
				if !ok || astx.Builtin(info, call) != "len" {
					continue
				}
				lid, ok := ast.Unparen(call.Args[0]).(*ast.Ident)
				if !ok || astx.Obj(info, lid) != res {
					continue
				}
				k, ok := astx.ConstInt(info, be.Y)
				if !ok {
					continue
				}
				if (be.Op == token.EQL && !fct.Val && k == 0) || (be.Op == token.NEQ && fct.Val && k == 0) || (be.Op == token.GTR && fct.Val && k >= 0) || (be.Op == token.GEQ && fct.Val && k >= 1) || (be.Op == token.LSS && !fct.Val && k >= 1) || (be.Op == token.LEQ && !fct.Val && k >= 0) {
					nonEmpty = true
				}
			}
			r.Check(nonEmpty, rule, gm.Name(), "the first element of a batch is read only when the batch is non-empty", c.P.Pos(ie.Pos()), "dominated by len(<batch>) != 0",
				"GetNext's result is indexed with [0] where it may be empty (it is empty after a cancellation): the reader goroutine panics with index out of range, which terminates the process")
			return true
		})
		r.Check(nIdx >= 1, rule, gm.Name(), "first-element reads found", c.P.Pos(gm.Node().Pos()), itoa(nIdx), "no <batch>[0] read in the follow loop")
	}
	r.Check(n >= 1, rule, gm.Name(), "delivery sends found", c.P.Pos(gm.Node().Pos()), itoa(n), "no send of a GetNext result found in getMessages")
}

func litSummary(info *types.Info, cl *ast.CompositeLit) string {
	if cl.Type == nil {
		return "via commit wrapper"
	}
	if t := litField(cl, "Type"); t != nil {
		return "robust.Message{Type: " + astx.Str(t) + "}"
	}
	return "robust.Message{…}"
}

// isDupTest recognises LastPostMessage(x) == y.ClientMessageId (either order).
func isDupTest(info *types.Info, e ast.Expr) bool {
	be, ok := ast.Unparen(e).(*ast.BinaryExpr)
	if !ok || be.Op.String() != "==" {
		return false
	}
	isLPM := func(x ast.Expr) bool {
		call, ok := ast.Unparen(x).(*ast.CallExpr)
		if !ok {
			return false
		}
		fn := astx.Callee(info, call)
		return fn != nil && fname(fn) == "LastPostMessage"
	}
	isCMI := func(x ast.Expr) bool {
		se, ok := ast.Unparen(x).(*ast.SelectorExpr)
		return ok && se.Sel.Name == "ClientMessageId"
	}
	return (isLPM(be.X) && isCMI(be.Y)) || (isLPM(be.Y) && isCMI(be.X))
}

func (c *Ctx) c05A2() {
	r := c.R
	fi := c.MustFunc("api.(*HTTP).applyMessageWait")
	if fi == nil {
		return
	}
	info := fi.Info()
	g := c.Graph(fi)
	name := fi.Name()
	// the raft Apply call
	var applyCall *ast.CallExpr
	for _, call := range astx.Calls(fi.Body(), true) {
		if fn := astx.Callee(info, call); fn != nil && astx.Method(fn, pathRaft, "Raft", "Apply") {
			applyCall = call
		}
	}
	if applyCall == nil {
		r.Fail("C05.A2", name, "raft.Apply call", c.P.Pos(fi.Node().Pos()), "applyMessageWait does not call (*raft.Raft).Apply")
		return
	}
	applyV := g.VertexOf(applyCall)
	as, _ := g.V[applyV].Node.(*ast.AssignStmt)
	var fut types.Object
	if as != nil && len(as.Lhs) == 1 {
		if id, ok := as.Lhs[0].(*ast.Ident); ok {
			fut = astx.Obj(info, id)
		}
	}
	r.Check(fut != nil, "C05.A2", name, "future of raft.Apply is kept", c.P.Pos(applyCall.Pos()), "assigned to a variable", "the ApplyFuture is not kept: commit cannot be awaited")
	if fut == nil {
		return
	}
	for _, n := range astx.Calls(fi.Body(), true) {
		_ = n
	}
	ast.Inspect(fi.Body(), func(n ast.Node) bool {
		switch n.(type) {
		case *ast.GoStmt:
			r.Fail("C05.A2", name, "go statement", c.P.Pos(n.Pos()), "goroutine hand-off inside applyMessageWait")
		case *ast.SelectStmt, *ast.SendStmt:
			r.Fail("C05.A2", name, "channel operation", c.P.Pos(n.Pos()), "channel hand-off inside applyMessageWait")
		}
		return true
	})
	onFuture := func(method string) func(fn *types.Func, call *ast.CallExpr) bool {
		return func(fn *types.Func, call *ast.CallExpr) bool {
			if fn.Name() != method {
				return false
			}
			se, ok := ast.Unparen(call.Fun).(*ast.SelectorExpr)
			if !ok {
				return false
			}
			id, ok := ast.Unparen(se.X).(*ast.Ident)
			return ok && astx.Obj(info, id) == fut
		}
	}
	nrets := 0
	for _, rv := range g.Returns() {
		rs := rv.Node.(*ast.ReturnStmt)
		if len(rs.Results) != 1 || !isNilIdent(info, rs.Results[0]) {
			continue
		}
		nrets++
		pos := c.P.Pos(rs.Pos())
		if !g.DominatedBy(rv.ID, func(v *cfgx.Vertex) bool { return v.ID == applyV }) {
			r.Fail("C05.A2", name, "return nil", pos, "a nil return is not preceded by raft.Apply")
			continue
		}
		ok1, why1 := c.errNilAfterCall(fi, g, rv.ID, onFuture("Error"))
		r.Check(ok1, "C05.A2", name, "return nil after f.Error() == nil", pos, why1,
			"success is returned on a path that does not pass the nil edge of the ApplyFuture's Error(): an uncommitted entry is acknowledged")
		// FSM response must not be an error: false edge of `ok` from f.Response().(error)
		ok2, why2 := false, ""
		for _, f := range g.FactsAt(rv.ID) {
			if f.Tag != nil || f.Val {
				continue
			}
			id, isID := ast.Unparen(f.Expr).(*ast.Ident)
			if !isID {
				continue
			}
			for _, d := range defsOf(info, fi.Node(), astx.Obj(info, id)) {
				if ta, isTA := ast.Unparen(d).(*ast.TypeAssertExpr); isTA {
					if call, isCall := ast.Unparen(ta.X).(*ast.CallExpr); isCall {
						if fn := astx.Callee(info, call); fn != nil && onFuture("Response")(fn, call) {
							ok2, why2 = true, "dominated by !"+id.Name+" from f.Response().(error)"
						}
					}
				}
			}
		}
		r.Check(ok2, "C05.A2", name, "return nil after FSM response is not an error", pos, why2,
			"success is returned without testing that the FSM's response is not an error (e.g. session limit reached)")
	}
	r.Check(nrets > 0, "C05.A2", name, "has a success return", c.P.Pos(fi.Node().Pos()), "found", "no `return nil` found")
}

func (c *Ctx) c05A3() {
	r := c.R
	mainFn := c.MustFunc("main.main")
	if mainFn == nil {
		return
	}
	info := mainFn.Info()
	name := mainFn.Name()
	resolve := func(e ast.Expr) ast.Expr {
		for i := 0; i < 4; i++ {
			d := uniqueDef(info, mainFn.Node(), e)
			if d == nil {
				return e
			}
			e = d
		}
		return e
	}
	isLevelDBUnderRaftDir := func(e ast.Expr) (bool, string) {
		e = resolve(e)
		call, ok := ast.Unparen(e).(*ast.CallExpr)
		if !ok {
			return false, "value is " + astx.Str(e)
		}
		fn := astx.Callee(info, call)
		if fn == nil || !isFunc(fn, "raftstore", "NewLevelDBStore") {
			return false, "value comes from " + astx.Str(call.Fun)
		}
		if len(call.Args) == 0 || !mentionsGlobal(info, call.Args[0], "raftDir") {
			return false, "store path does not derive from -raftdir"
		}
		return true, "raftstore.NewLevelDBStore under *raftDir"
	}
	var fsmStoreObj types.Object
	n := 0
	for _, call := range astx.Calls(mainFn.Body(), true) {
		fn := astx.Callee(info, call)
		if fn == nil || fn.Pkg() == nil || fn.Pkg().Path() != pathRaft {
			continue
		}
		if fname(fn) != "NewRaft" && fname(fn) != "GetConfiguration" {
			continue
		}
		if len(call.Args) != 6 {
			continue
		}
		n++
		pos := c.P.Pos(call.Pos())
		// LogStore: direct or through raft.NewLogCache(_, store)
		logArg := resolve(call.Args[2])
		if lc, ok := ast.Unparen(logArg).(*ast.CallExpr); ok {
			if f2 := astx.Callee(info, lc); f2 != nil && f2.Pkg() != nil && f2.Pkg().Path() == pathRaft && f2.Name() == "NewLogCache" && len(lc.Args) == 2 {
				logArg = lc.Args[1]
			}
		}
		ok, why := isLevelDBUnderRaftDir(logArg)
		r.Check(ok, "C05.A3", name, "raft."+fn.Name()+" LogStore", pos, why, "raft's LogStore is not the LevelDB store under -raftdir ("+why+"): committed entries would not survive a restart")
		ok, why = isLevelDBUnderRaftDir(call.Args[3])
		r.Check(ok, "C05.A3", name, "raft."+fn.Name()+" StableStore", pos, why, "raft's StableStore is not the LevelDB store under -raftdir ("+why+"): term/vote would not survive a restart")
		if id, isID := ast.Unparen(call.Args[3]).(*ast.Ident); isID {
			fsmStoreObj = astx.Obj(info, id)
		}
		snap := resolve(call.Args[4])
		okS, whyS := false, "value is "+astx.Str(snap)
		if sc, isCall := ast.Unparen(snap).(*ast.CallExpr); isCall {
			if f2 := astx.Callee(info, sc); f2 != nil && f2.Pkg() != nil && f2.Pkg().Path() == pathRaft && (f2.Name() == "NewFileSnapshotStoreWithLogger" || f2.Name() == "NewFileSnapshotStore") {
				if len(sc.Args) > 0 && mentionsGlobal(info, sc.Args[0], "raftDir") {
					okS, whyS = true, "raft file snapshot store under *raftDir"
				} else {
					whyS = "snapshot directory does not derive from -raftdir"
				}
			} else {
				whyS = "value comes from " + astx.Str(sc.Fun)
			}
		}
		r.Check(okS, "C05.A3", name, "raft."+fn.Name()+" SnapshotStore", pos, whyS, "raft's SnapshotStore is not the file store under -raftdir ("+whyS+")")
	}
	r.Check(n >= 1, "C05.A3", name, "raft.NewRaft call found", c.P.Pos(mainFn.Node().Pos()), "found", "main does not call raft.NewRaft with six arguments")
	// FSM.store is the raft log store (message-of-death rewrite must hit the log raft replays from)
	for _, cl := range compositeLitsOf(info, mainFn.Body(), load.ModPath, "FSM") {
		st := litField(cl, "store")
		ok := false
		if id, isID := ast.Unparen(st).(*ast.Ident); st != nil && isID && fsmStoreObj != nil && astx.Obj(info, id) == fsmStoreObj {
			ok = true
		}
		r.Check(ok, "C05.A3", name, "FSM.store is raft's log store", c.P.Pos(cl.Pos()), "same variable as the LogStore/StableStore argument",
			"FSM.store is not the store handed to raft: a message of death would be marked in a log raft never replays")
		irc := litField(cl, "ircstore")
		okI, whyI := false, "missing"
		if irc != nil {
			okI, whyI = isLevelDBUnderRaftDir(irc)
		}
		r.Check(okI, "C05.A3", name, "FSM.ircstore is a LevelDB store under -raftdir", c.P.Pos(cl.Pos()), whyI, "FSM.ircstore: "+whyI)
	}
	// the store constructor opens files
	ctor := c.MustFunc("raftstore.NewLevelDBStore")
	if ctor != nil {
		ci := ctor.Info()
		opensFile, other := false, ""
		for _, call := range astx.Calls(ctor.Body(), true) {
			fn := astx.Callee(ci, call)
			if fn == nil || fn.Pkg() == nil || fn.Pkg().Path() != pathLevelDB {
				continue
			}
			switch fn.Name() {
			case "OpenFile", "RecoverFile":
				opensFile = true
			case "Open", "Recover":
				other = fn.Name()
			}
		}
		r.Check(opensFile && other == "", "C05.A3", ctor.Name(), "opens a file-backed database", c.P.Pos(ctor.Node().Pos()), "leveldb.OpenFile/RecoverFile only",
			"NewLevelDBStore opens the database with leveldb."+other+" (storage chosen by the caller, possibly in-memory)")
	}
	os := c.P.Func("outputstream.NewOutputStream")
	_ = os
}

func mentionsGlobal(info *types.Info, e ast.Expr, name string) bool {
	found := false
	ast.Inspect(e, func(n ast.Node) bool {
		if id, ok := n.(*ast.Ident); ok && id.Name == name {
			if v, ok := info.Uses[id].(*types.Var); ok && v.Parent() == v.Pkg().Scope() {
				found = true
			}
		}
		return !found
	})
	return found
}

// c05API (A5–A7): found by the sweep of package api.
//
//	A5 error discipline and frozen error dispositions of the handlers that propose entries and of applyMessageWait;
//	A6 the hand-off to the leader answers: every normal return of maybeProxyToLeader has passed the proxy's ServeHTTP or an
//	   http.Error (a hand-off that silently returns makes the handler acknowledge with an empty 200);
//	A7 the proposal is stamped with the proposing node's clock before it is encoded (compaction and session expiry are
//	   judged by this time), and the id is taken from the raft index after the commit.
func (c *Ctx) c05API() {
	c.c05HeaderBeforeBody()
	r := c.R
	names := []string{"api.(*HTTP).applyMessageWait", "api.(*HTTP).handlePostMessage", "api.(*HTTP).handleCreateSession", "api.(*HTTP).handleDeleteSession", "api.(*HTTP).handlePostConfig", "api.(*HTTP).applyConfig", "api.(*HTTP).handleKill", "api.(*HTTP).maybeProxyToLeader", "api.parseLastSeen", "api.(*HTTP).handleGetMessages", "api.(*HTTP).getMessages", "api.(*HTTP).session", "api.(*HTTP).sessionOrProxy"}
	nErr := 0
	for _, n := range names {
		if fi := c.P.Func(n); fi != nil && fi.Body() != nil {
			nErr += c.errorDiscipline("C05.A5", fi, "a request is acknowledged although it was not committed, or refused although it was")
		}
	}
	if nErr < 10 {
		r.Break("C05.A5: only %d error definitions found in the proposing handlers", nErr)
	}
	// applyMessageWait reports failure only when encoding or raft does: a "failed" proposal that commits all the same is
	// answered as refused and applied on every node
	c.noOwnErrors("C05.A5", c.P.Func("api.(*HTTP).applyMessageWait"), "the caller answers 'not applied' for an entry that raft goes on to commit: the client retries or gives up, and every replica applies it")
	c.errorDispositions("C05.A5", []string{"api"}, func(fn string) bool {
		for _, n := range names {
			if fn == n {
				return true
			}
		}
		return false
	}, "a request is acknowledged although it was not committed")
	if mp := c.MustFunc("api.(*HTTP).maybeProxyToLeader"); mp != nil && mp.Body() != nil {
		info := mp.Info()
		g := c.Graph(mp)
		answers := func(x int) bool {
			if g.V[x].Node == nil {
				return false
			}
			for _, call := range astx.Calls(g.V[x].Node, false) {
				if fn := astx.Callee(info, call); fn != nil {
					if isFunc(fn, "net/http", "Error") || fn.Name() == "ServeHTTP" {
						return true
					}
				}
			}
			return false
		}
		silent := g.Reach(g.Entry, answers, nil)[g.Exit]
		r.Check(!silent, "C05.A6", mp.Name(), "the hand-off to the leader always answers", c.P.Pos(mp.Node().Pos()), "every path to the return passes <proxy>.ServeHTTP or http.Error",
			"maybeProxyToLeader can return without having forwarded the request or reported an error: the calling handler returns as well, the client sees an empty 200 and takes the message for accepted — it was never proposed anywhere")
	}
	if amw := c.MustFunc("api.(*HTTP).applyMessageWait"); amw != nil && amw.Body() != nil {
		info := amw.Info()
		g := c.Graph(amw)
		isStamp := func(x *cfgx.Vertex) bool {
			as, ok := x.Node.(*ast.AssignStmt)
			if !ok || len(as.Lhs) != 1 || len(as.Rhs) != 1 {
				return false
			}
			se, ok := ast.Unparen(as.Lhs[0]).(*ast.SelectorExpr)
			if !ok || se.Sel.Name != "UnixNano" {
				return false
			}
			found := false
			for _, call := range astx.Calls(as.Rhs[0], false) {
				if fn := astx.Callee(info, call); fn != nil && isFunc(fn, "time", "Now") {
					found = true
				}
			}
			return found
		}
		n := 0
		for _, v := range g.Nodes() {
			for _, call := range astx.Calls(v.Node, false) {
				fn := astx.Callee(info, call)
				if fn == nil || fn.Name() != "Marshal" {
					continue
				}
				n++
				r.Check(g.DominatedBy(v.ID, isStamp), "C05.A7", amw.Name(), "the proposal is stamped before it is encoded", c.P.Pos(call.Pos()), "msg.UnixNano = time.Now().UnixNano() dominates the Marshal call",
					"an entry is encoded without the proposing node's time: every replica then dates it by its id (1970), so it is older than any compaction horizon and the session it creates is expired at once")
			}
		}
		if n < 2 {
			r.Break("C05.A7: only %d Marshal calls found in applyMessageWait", n)
		}
		// the id handed back to the caller is the raft index of the committed entry
		okID := false
		for _, rv := range g.Returns() {
			rs := rv.Node.(*ast.ReturnStmt)
			if len(rs.Results) == 1 && isNilIdent(info, rs.Results[0]) {
				okID = g.DominatedBy(rv.ID, func(x *cfgx.Vertex) bool {
					as, ok := x.Node.(*ast.AssignStmt)
					if !ok || len(as.Lhs) != 1 {
						return false
					}
					se, ok := ast.Unparen(as.Lhs[0]).(*ast.SelectorExpr)
					if !ok || se.Sel.Name != "Id" {
						return false
					}
					for _, call := range astx.Calls(as.Rhs[0], false) {
						if fn := astx.Callee(info, call); fn != nil && fname(fn) == "IdFromRaftIndex" {
							return true
						}
					}
					return false
				})
			}
		}
		r.Check(okID, "C05.A7", amw.Name(), "a committed message gets the id of its raft index", c.P.Pos(amw.Node().Pos()), "msg.Id.Id = robust.IdFromRaftIndex(f.Index()) dominates return nil",
			"applyMessageWait reports success without having put the committed entry's id into the message: handleCreateSession hands the client session id 0")
	}
}

// c05HeaderBeforeBody (A6b): an HTTP answer's status is set before its body: once anything was written to the response
// writer the status is 200, and a later WriteHeader (or http.Error) is ignored — a failure is then answered "200 OK" and
// the client takes its POST for acknowledged. For every function and function literal of package api with a response
// writer: no body write reaches a WriteHeader / http.Error on the same writer.
func (c *Ctx) c05HeaderBeforeBody() {
	c.c05FreshProposal()
	r := c.R
	n := 0
	clientFacing := map[string]bool{"api.(*HTTP).handlePostMessage": true, "api.(*HTTP).handleCreateSession": true, "api.(*HTTP).handleDeleteSession": true,
		"api.(*HTTP).handleGetMessages": true, "api.(*HTTP).maybeProxyToLeader": true, "api.(*HTTP).sessionOrProxy": true, "api.(*HTTP).DispatchPublic": true}
	for _, fi := range c.P.FuncsIn("api") {
		if fi.Body() == nil || !clientFacing[fi.Name()] {
			continue
		}
		info := fi.Info()
		type unit struct {
			g    *cfgx.Graph
			name string
		}
		units := []unit{{c.Graph(fi), fi.Name()}}
		for k, lit := range funcLitsIn(fi.Body()) {
			units = append(units, unit{c.LitGraph(fi.Name()+"$hdrlit"+itoa(k), lit, info), fi.Name()})
		}
		isWriter := func(e ast.Expr) types.Object {
			id, ok := ast.Unparen(e).(*ast.Ident)
			if !ok {
				return nil
			}
			o := astx.Obj(info, id)
			if o == nil || !strings.HasSuffix(o.Type().String(), "net/http.ResponseWriter") {
				return nil
			}
			return o
		}
		for _, u := range units {
			g := u.g
			bodyW := map[int]types.Object{}
			hdrW := map[int]types.Object{}
			for _, v := range g.Nodes() {
				for _, call := range astx.Calls(v.Node, false) {
					fn := astx.Callee(info, call)
					if se, ok := ast.Unparen(call.Fun).(*ast.SelectorExpr); ok {
						if w := isWriter(se.X); w != nil {
							switch se.Sel.Name {
							case "Write":
								bodyW[v.ID] = w
							case "WriteHeader":
								hdrW[v.ID] = w
							}
						}
					}
					if fn != nil && fn.Pkg() != nil && len(call.Args) > 0 {
						p, nm := fn.Pkg().Path(), fn.Name()
						if w := isWriter(call.Args[0]); w != nil {
							switch {
							case p == "fmt" && strings.HasPrefix(nm, "Fprint"), p == "io" && (nm == "WriteString" || nm == "Copy"):
								bodyW[v.ID] = w
							case p == "net/http" && nm == "Error":
								hdrW[v.ID] = w
							}
						}
					}
				}
			}
			for hv, w := range hdrW {
				n++
				late := false
				for bv, bw := range bodyW {
					if bw == w && bv != hv && g.Reach(bv, nil, nil)[hv] {
						late = true
					}
				}
				r.Check(!late, "C05.A6", u.name, "the status is set before anything is written to the response", c.P.Pos(g.V[hv].Node.Pos()), "no body write reaches this WriteHeader / http.Error",
					"the response body is written before the status: the status stays 200, so a failed request (a proxy that could not reach the leader, a refused proposal) is acknowledged to the client")
			}
		}
	}
	if n < 5 {
		r.Break("C05.A6: only %d status-setting calls found in the client-facing handlers", n)
	}
}

// c05FreshProposal (A7b): applyMessageWait stamps the message it is given and stores the assigned id in it; the id of an entry
// defaults to its raft index only while the field is still zero. A message object that is proposed a second time carries the
// first proposal's id: for every call of applyMessageWait inside a loop, the message is built inside that loop.
func (c *Ctx) c05FreshProposal() {
	r := c.R
	amw := c.P.Func("api.(*HTTP).applyMessageWait")
	if amw == nil {
		return
	}
	n := 0
	for _, fi := range c.P.FuncsIn("api") {
		if fi.Body() == nil {
			continue
		}
		info := fi.Info()
		var loops []ast.Node
		var walk func(n ast.Node)
		walk = func(root ast.Node) {
			ast.Inspect(root, func(m ast.Node) bool {
				switch x := m.(type) {
				case *ast.ForStmt, *ast.RangeStmt:
					loops = append(loops, x)
				}
				return true
			})
		}
		walk(fi.Body())
		for _, call := range callsIn(fi, func(fn *types.Func, _ *ast.CallExpr) bool { return fn == amw.Obj }) {
			if len(call.Args) < 1 {
				continue
			}
			n++
			var inLoop ast.Node
			for _, l := range loops {
				if l.Pos() <= call.Pos() && call.End() <= l.End() && (inLoop == nil || l.Pos() > inLoop.Pos()) {
					inLoop = l
				}
			}
			if inLoop == nil {
				continue
			}
			ok := false
			if id, isID := ast.Unparen(call.Args[0]).(*ast.Ident); isID {
				if o := astx.Obj(info, id); o != nil && o.Pos() >= inLoop.Pos() && o.Pos() <= inLoop.End() {
					ok = true // declared inside the loop
				}
			} else if _, isLit := ast.Unparen(call.Args[0]).(*ast.UnaryExpr); isLit {
				ok = true
			}
			r.Check(ok, "C05.A7", fi.Name(), "a message proposed in a loop is a fresh message each time", c.P.Pos(call.Pos()), "the message variable is declared inside the loop",
				"one message object is proposed several times: from the second proposal on it already carries an id (that of the previous entry), so the entry does not get the id of its own raft index")
		}
	}
	if n < 4 {
		r.Break("C05.A7: only %d proposals (calls of applyMessageWait) found in package api", n)
	}
}
