package rules

import (
	"go/ast"
	"go/token"
	"go/types"
	"strings"

	"verif/checker/internal/astx"
	"verif/checker/internal/cfgx"
	"verif/checker/internal/load"
)

// Rules found by the statement-level sweep of package outputstream (every variant of every function judged by all rule
// sets; the silent ones that are wrong were turned into rules):
//
//   S7 keys: every use of a key buffer (Put / Get / Delete / range bound) is reached only by an encoding of that buffer made
//      for this use — no second use without re-encoding, no use of the never-encoded buffer except for the constant id 0 —
//      and a batch is stored under its own id (the encoded value is <X>.Messages[0].Id.Id of the X that is marshalled, or
//      the first id of the slice X was just built from);
//   S8 Add links and stores: previous tail rewritten with NextID = id of the new batch, then the new batch, both in the one
//      LevelDB write, on a freshly reset batch;
//   S9 look-up results: getUnlocked reports "not found" only for LevelDB's ErrNotFound (never for a cache miss) and panics
//      only for other errors; in GetNext the range search runs whenever the successor look-up failed, its hit is returned,
//      the "newest batch" fall-back is taken only when it found nothing and reads an unranged iterator, and the wait loop
//      waits on every way round.

func leveldbCall(info *types.Info, call *ast.CallExpr, names ...string) bool {
	se, ok := ast.Unparen(call.Fun).(*ast.SelectorExpr)
	if !ok {
		return false
	}
	fn := astx.Callee(info, call)
	if fn == nil || fn.Pkg() == nil || !strings.Contains(fn.Pkg().Path(), "goleveldb") {
		return false
	}
	for _, nm := range names {
		if se.Sel.Name == nm {
			return true
		}
	}
	return false
}

// keyBufOf returns the local variable behind `k` or `k[:]`.
func keyBufOf(info *types.Info, e ast.Expr) types.Object {
	e = ast.Unparen(e)
	if sl, ok := e.(*ast.SliceExpr); ok && sl.Low == nil && sl.High == nil {
		e = ast.Unparen(sl.X)
	}
	id, ok := e.(*ast.Ident)
	if !ok {
		return nil
	}
	v, ok := astx.Obj(info, id).(*types.Var)
	if !ok || v.IsField() {
		return nil
	}
	switch t := v.Type().Underlying().(type) {
	case *types.Array:
		if b, ok := t.Elem().Underlying().(*types.Basic); ok && b.Kind() == types.Byte {
			return v
		}
	case *types.Slice:
		if b, ok := t.Elem().Underlying().(*types.Basic); ok && b.Kind() == types.Byte {
			return v
		}
	}
	return nil
}

type keyUse struct {
	v     int
	pos   token.Pos
	what  string
	buf   types.Object
	value ast.Expr // for Put: the value argument
}

// keyedWrites implements S7 for one function; it returns the number of key uses inspected.
func (c *Ctx) keyedWrites(rule string, fi *load.FuncInfo) int {
	r := c.R
	info := fi.Info()
	g := c.Graph(fi)
	var params []types.Object
	for _, fld := range fi.FuncType().Params.List {
		for _, nm := range fld.Names {
			params = append(params, info.Defs[nm])
		}
	}
	var uses []keyUse
	encOf := map[int]map[types.Object]ast.Expr{} // vertex -> buffer -> encoded value
	for _, v := range g.Nodes() {
		for _, call := range astx.Calls(v.Node, false) {
			if _, m := endianOf(info, call); m == "PutUint64" && len(call.Args) == 2 {
				if b := keyBufOf(info, call.Args[0]); b != nil {
					if encOf[v.ID] == nil {
						encOf[v.ID] = map[types.Object]ast.Expr{}
					}
					encOf[v.ID][b] = call.Args[1]
				}
				continue
			}
			if leveldbCall(info, call, "Put", "Get", "Delete", "Has") && len(call.Args) >= 1 {
				if b := keyBufOf(info, call.Args[0]); b != nil {
					u := keyUse{v: v.ID, pos: call.Pos(), what: astx.Str(call.Fun), buf: b}
					if se := ast.Unparen(call.Fun).(*ast.SelectorExpr); se.Sel.Name == "Put" && len(call.Args) >= 2 {
						u.value = call.Args[1]
					}
					uses = append(uses, u)
				}
			}
		}
		if v.Node != nil {
			for _, cl := range compositeLitsOfAny(info, v.Node, "github.com/syndtr/goleveldb/leveldb/util") {
				for _, fld := range []string{"Start", "Limit"} {
					if val := litField(cl, fld); val != nil {
						if b := keyBufOf(info, val); b != nil {
							uses = append(uses, keyUse{v: v.ID, pos: val.Pos(), what: "util.Range." + fld, buf: b})
						}
					}
				}
			}
		}
	}
	isUseOf := func(b types.Object, x int) bool {
		for _, u := range uses {
			if u.buf == b && u.v == x {
				return true
			}
		}
		return false
	}
	for _, u := range uses {
		isEnc := func(x int) bool { return encOf[x] != nil && encOf[x][u.buf] != nil }
		// reaching encodings
		var reaching []int
		for x := range encOf {
			if !isEnc(x) {
				continue
			}
			reaches := false
			for _, e := range g.V[x].Succ {
				if e.To == u.v || g.Reach(e.To, isEnc, nil)[u.v] {
					reaches = true
				}
			}
			if x == u.v {
				reaches = false // encoding inside the same statement is evaluated after / with the use: not supported, not seen in the tree
			}
			if reaches {
				reaching = append(reaching, x)
			}
		}
		zero := g.Entry == u.v || g.Reach(g.Entry, isEnc, nil)[u.v]
		// stale: some path from a reaching encoding to the use passes another use of the same buffer
		stale := false
		for _, x := range reaching {
			for _, e := range g.V[x].Succ {
				if e.To == u.v {
					continue
				}
				mid := g.Reach(e.To, func(y int) bool { return isEnc(y) || y == u.v }, nil)
				for y := range g.V {
					if (mid[y] || y == e.To) && y != u.v && !isEnc(y) && isUseOf(u.buf, y) {
						// y is reachable from the encoding without re-encoding; does the use follow y?
						for _, e2 := range g.V[y].Succ {
							if e2.To == u.v || g.Reach(e2.To, isEnc, nil)[u.v] {
								stale = true
							}
						}
					}
				}
			}
		}
		r.Check(!stale, rule, fi.Name(), "key of "+u.what+" was encoded for this use", c.P.Pos(u.pos), "no other use of the key buffer between the encoding and this use",
			"the key buffer reaches "+u.what+" still holding the key of an earlier operation (the encoding for this use is missing on some path): the operation hits the previous key — a batch overwrites its predecessor, or the wrong batch is deleted / looked up")
		// what was encoded
		var want ast.Expr // <X> of X.marshal()
		wantConstZero := false
		var wantFirstOf ast.Expr // slice whose first element's id is X's id
		if u.value != nil {
			if mc, ok := ast.Unparen(u.value).(*ast.CallExpr); ok {
				if se, ok := ast.Unparen(mc.Fun).(*ast.SelectorExpr); ok && se.Sel.Name == "marshal" {
					want = se.X
					// the definition of X that dominates the use most closely: an assignment X = messageBatch{Messages: M, …}
					for _, dv := range g.Nodes() {
						as, ok := dv.Node.(*ast.AssignStmt)
						if !ok || len(as.Lhs) != 1 || len(as.Rhs) != 1 || !astx.Same(info, as.Lhs[0], want) {
							continue
						}
						cl, ok := ast.Unparen(as.Rhs[0]).(*ast.CompositeLit)
						if !ok {
							continue
						}
						// must dominate the use with no other assignment to X in between
						if !g.DominatedBy(u.v, func(x *cfgx.Vertex) bool { return x.ID == dv.ID }) {
							continue
						}
						if ms := litField(cl, "Messages"); ms != nil {
							if mcl, ok := ast.Unparen(ms).(*ast.CompositeLit); ok {
								// []Message{{Id: robust.Id{Id: 0}, …}}
								if len(mcl.Elts) >= 1 {
									if el, ok := ast.Unparen(mcl.Elts[0]).(*ast.CompositeLit); ok {
										if idv := litField(el, "Id"); idv != nil {
											if idl, ok := ast.Unparen(idv).(*ast.CompositeLit); ok {
												if z := litField(idl, "Id"); z != nil {
													if k, ok := astx.ConstInt(info, z); ok && k == 0 {
														wantConstZero = true
													}
												}
											}
										}
									}
								}
							} else {
								wantFirstOf = ms
							}
						}
					}
				}
			}
		}
		idOfX := func(val ast.Expr, at int) bool {
			// <X>.Messages[0].Id.Id  or  <M>[0].Id.Id
			e := c.throughLocal(fi, g, val, at, want)
			se1, ok := ast.Unparen(e).(*ast.SelectorExpr)
			if !ok || se1.Sel.Name != "Id" {
				return false
			}
			se2, ok := ast.Unparen(se1.X).(*ast.SelectorExpr)
			if !ok || se2.Sel.Name != "Id" {
				return false
			}
			ie, ok := ast.Unparen(se2.X).(*ast.IndexExpr)
			if !ok {
				return false
			}
			if z, ok := astx.ConstInt(info, ie.Index); !ok || z != 0 {
				return false
			}
			if wantFirstOf != nil && astx.Same(info, ie.X, wantFirstOf) {
				return true
			}
			if ms, ok := ast.Unparen(ie.X).(*ast.SelectorExpr); ok && ms.Sel.Name == "Messages" && want != nil && astx.Same(info, ms.X, want) {
				return true
			}
			return false
		}
		if want != nil {
			okID := len(reaching) > 0 || zero
			detail := ""
			for _, x := range reaching {
				val := encOf[x][u.buf]
				if idOfX(val, x) {
					continue
				}
				if k, ok := astx.ConstInt(info, stripConv(info, val)); ok && k == 0 && wantConstZero {
					continue
				}
				okID, detail = false, "encoded: "+astx.Str(val)
			}
			if zero && !wantConstZero {
				okID, detail = false, "the buffer can reach the Put without having been encoded"
			}
			r.Check(okID, rule, fi.Name(), "a batch is stored under its own id", c.P.Pos(u.pos), "the key encodes Messages[0].Id.Id of the batch that is marshalled",
				"the key under which a batch is written is not the id of that batch ("+detail+"): Get(id) returns another input's replies, and the NextID chain GetNext follows points to the wrong batch")
		} else {
			okSrc := !zero
			for _, x := range reaching {
				val := encOf[x][u.buf]
				// an id read once into a local (deletedID := inputID.Id; lastseenID+1): judged by what the local holds
				for k := 0; k < 3; k++ {
					base := ast.Unparen(stripConv(info, val))
					if be, isBE := base.(*ast.BinaryExpr); isBE {
						base = ast.Unparen(be.X)
					}
					id, isID := base.(*ast.Ident)
					if !isID {
						break
					}
					d := uniqueDef(info, fi.Node(), id)
					if d == nil {
						break
					}
					val = d
				}
				mentionsInput := false
				for _, p := range params {
					if p != nil && astx.Mentions(info, val, p) {
						mentionsInput = true
					}
				}
				if !mentionsInput {
					// the id of a batch held in a field or local (Delete re-writes the new tail): <X>.Messages[0].Id.Id
					if e, ok := ast.Unparen(stripConv(info, val)).(*ast.SelectorExpr); !ok || (e.Sel.Name != "Id" && e.Sel.Name != "Index") {
						okSrc = false
					}
				}
			}
			r.Check(okSrc && (len(reaching) > 0), rule, fi.Name(), "key of "+u.what+" is the encoding of the id asked for", c.P.Pos(u.pos), "every encoding reaching the use is computed from the function's id parameter (or a batch's own id)",
				"the key handed to "+u.what+" is the never-encoded buffer (id 0) or not derived from the id the caller asked for: the look-up / deletion / range search addresses another batch")
		}
	}
	return len(uses)
}

func (c *Ctx) c08Keys(methods []*load.FuncInfo) {
	r := c.R
	n := 0
	for _, fi := range c.P.FuncsIn("outputstream") {
		if fi.Body() != nil {
			n += c.keyedWrites("C08.S7", fi)
		}
	}
	r.Ok("C08.S7", "outputstream", "uses of key buffers inspected", "-", itoa(n))
	if n < 7 {
		r.Break("C08.S7: only %d uses of key buffers found in outputstream (expected >= 7)", n)
	}
}

// c08Add (S8)
func (c *Ctx) c08Add() {
	r := c.R
	add := c.MustFunc("outputstream.(*OutputStream).Add")
	if add == nil || add.Body() == nil {
		return
	}
	info := add.Info()
	g := c.Graph(add)
	lastseenF := c.P.Field("outputstream", "OutputStream", "lastseen")
	var msgs types.Object
	for _, fld := range add.FuncType().Params.List {
		for _, nm := range fld.Names {
			msgs = info.Defs[nm]
		}
	}
	isLastseen := func(e ast.Expr) bool {
		se, ok := ast.Unparen(e).(*ast.SelectorExpr)
		return ok && lastseenF != nil && astx.FieldSel(info, se) == lastseenF
	}
	linkV, assignV, writeV, resetV := -1, -1, -1, -1
	var puts []int
	var linkRHS ast.Expr
	for _, v := range g.Nodes() {
		if as, ok := v.Node.(*ast.AssignStmt); ok && len(as.Lhs) == 1 && len(as.Rhs) == 1 {
			if se, ok := ast.Unparen(as.Lhs[0]).(*ast.SelectorExpr); ok && se.Sel.Name == "NextID" && isLastseen(se.X) {
				linkV, linkRHS = v.ID, as.Rhs[0]
			}
			if isLastseen(as.Lhs[0]) {
				if cl, ok := ast.Unparen(as.Rhs[0]).(*ast.CompositeLit); ok {
					ms := litField(cl, "Messages")
					if id, ok := ast.Unparen(ms).(*ast.Ident); ms != nil && ok && astx.Obj(info, id) == msgs {
						assignV = v.ID
					}
				}
			}
		}
		for _, call := range astx.Calls(v.Node, false) {
			if leveldbCall(info, call, "Put") && len(call.Args) == 2 {
				if mc, ok := ast.Unparen(call.Args[1]).(*ast.CallExpr); ok {
					if se, ok := ast.Unparen(mc.Fun).(*ast.SelectorExpr); ok && se.Sel.Name == "marshal" && isLastseen(se.X) {
						puts = append(puts, v.ID)
					}
				}
			}
			if leveldbCall(info, call, "Write") {
				writeV = v.ID
			}
			if leveldbCall(info, call, "Reset") {
				resetV = v.ID
			}
		}
	}
	dom := func(a, b int) bool { // a dominates b
		return a >= 0 && b >= 0 && g.DominatedBy(b, func(x *cfgx.Vertex) bool { return x.ID == a })
	}
	pos := c.P.Pos(add.Node().Pos())
	okShape := len(puts) == 2 && linkV >= 0 && assignV >= 0 && writeV >= 0
	var p1, p2 = -1, -1
	if len(puts) == 2 {
		p1, p2 = puts[0], puts[1]
		if dom(p2, p1) {
			p1, p2 = p2, p1
		}
	}
	r.Check(okShape && dom(linkV, p1) && dom(p1, assignV) && dom(assignV, p2) && dom(p2, writeV), "C08.S8", add.Name(), "previous tail (re-linked) and new batch are both written by the one LevelDB write", pos,
		"lastseen.NextID = id; Put(previous tail); lastseen = {Messages: msgs}; Put(new batch); db.Write — each dominating the next",
		"Add does not put both the re-linked previous tail and the new batch into the write batch before writing it (or in the wrong order relative to replacing lastseen): the new batch is never stored or no stored batch points to it, so Get misses it and GetNext stays blocked although a successor exists")
	// the link value is the id of the new batch
	okLink := false
	if linkRHS != nil {
		e := c.throughLocal(add, g, linkRHS, linkV, nil)
		if se1, ok := ast.Unparen(e).(*ast.SelectorExpr); ok && se1.Sel.Name == "Id" {
			if se2, ok := ast.Unparen(se1.X).(*ast.SelectorExpr); ok && se2.Sel.Name == "Id" {
				if ie, ok := ast.Unparen(se2.X).(*ast.IndexExpr); ok {
					if z, okz := astx.ConstInt(info, ie.Index); okz && z == 0 {
						if id, ok := ast.Unparen(ie.X).(*ast.Ident); ok && astx.Obj(info, id) == msgs {
							okLink = true
						}
					}
				}
			}
		}
	}
	r.Check(okLink, "C08.S8", add.Name(), "the previous tail is linked to the id of the new batch", pos, "lastseen.NextID = msgs[0].Id.Id",
		"the NextID written into the previous tail is not the id under which the new batch is stored: GetNext follows the link to a batch that does not exist")
	r.Check(resetV >= 0 && dom(resetV, p1), "C08.S8", add.Name(), "the write batch is reset before it is filled", pos, "batch.Reset() dominates the first Put",
		"Add re-uses its write batch without resetting it: the operations of the previous Add are applied again, which re-creates a batch that compaction deleted in between")
	// the new tail has no successor yet
	okMax := false
	if assignV >= 0 {
		as := g.V[assignV].Node.(*ast.AssignStmt)
		if nx := litField(ast.Unparen(as.Rhs[0]).(*ast.CompositeLit), "NextID"); nx != nil && refersTo(info, nx, "math", "MaxUint64") {
			okMax = true
		}
	}
	r.Check(okMax, "C08.S8", add.Name(), "the new tail carries the 'no successor yet' marker", pos, "NextID: math.MaxUint64",
		"the new tail is stored with a NextID other than the no-successor marker: GetNext takes it for a link and, not finding the batch, falls back to searching instead of waiting (or returns a wrong batch)")
}

// c08Lookups (S9)
func (c *Ctx) c08Lookups() {
	r := c.R
	// ---- getUnlocked
	if gu := c.MustFunc("outputstream.(*OutputStream).getUnlocked"); gu != nil && gu.Body() != nil {
		info := gu.Info()
		g := c.Graph(gu)
		isNotFoundFact := func(f cfgx.Fact, val bool) bool {
			be, ok := ast.Unparen(f.Expr).(*ast.BinaryExpr)
			if !ok || f.Tag != nil {
				return false
			}
			if !(refersTo(info, be.X, pathLevelDB, "ErrNotFound") || refersTo(info, be.Y, pathLevelDB, "ErrNotFound")) {
				return false
			}
			eq := (be.Op == token.EQL && f.Val) || (be.Op == token.NEQ && !f.Val)
			return eq == val
		}
		nRet := 0
		for _, rv := range g.Returns() {
			rs := rv.Node.(*ast.ReturnStmt)
			if len(rs.Results) != 2 {
				continue
			}
			nRet++
			second := ast.Unparen(rs.Results[1])
			facts := g.FactsAt(rv.ID)
			reportsMissing := false
			if id, ok := second.(*ast.Ident); ok {
				if id.Name == "false" {
					reportsMissing = true
				} else if id.Name != "true" {
					// a variable: missing when the dominating facts say it is false; found only when they say it is true
					saysTrue := false
					for _, f := range facts {
						if fid, ok := ast.Unparen(f.Expr).(*ast.Ident); ok && f.Tag == nil && astx.Obj(info, fid) == astx.Obj(info, id) {
							if f.Val {
								saysTrue = true
							}
						}
					}
					reportsMissing = !saysTrue
				}
			}
			if !reportsMissing {
				continue
			}
			okNF := false
			for _, f := range facts {
				if isNotFoundFact(f, true) {
					okNF = true
				}
			}
			r.Check(okNF, "C08.S9", gu.Name(), "'not found' is reported only for LevelDB's ErrNotFound", c.P.Pos(rs.Pos()), "dominated by err == leveldb.ErrNotFound",
				"getUnlocked reports a batch as missing on a path that did not establish that LevelDB does not have it (e.g. on a mere cache miss): Get loses stored replies and GetNext never finds the successor")
		}
		if nRet < 3 {
			r.Break("C08.S9: only %d two-valued returns in getUnlocked", nRet)
		}
		// the panic is for other errors only
		for _, v := range g.Nodes() {
			for _, call := range astx.Calls(v.Node, false) {
				if !cfgx.NoReturn(info, call) {
					continue
				}
				okOther := false
				for _, f := range g.FactsAt(v.ID) {
					if isNotFoundFact(f, false) {
						okOther = true
					}
				}
				r.Check(okOther, "C08.S9", gu.Name(), "the look-up panics only for errors other than ErrNotFound", c.P.Pos(call.Pos()), "dominated by err != leveldb.ErrNotFound",
					"a look-up of a batch that was deleted (compaction runs while readers are active) reaches the no-return call: the process dies")
			}
		}
	}
	// ---- Get hands back the whole batch that was added under the id (its callers do their own slicing by reply number)
	if get := c.MustFunc("outputstream.(*OutputStream).Get"); get != nil && get.Body() != nil {
		gi := get.Info()
		gg := c.Graph(get)
		nOK := 0
		for _, rv := range gg.Returns() {
			rs := rv.Node.(*ast.ReturnStmt)
			if len(rs.Results) != 2 {
				continue
			}
			if id, ok := ast.Unparen(rs.Results[1]).(*ast.Ident); ok && id.Name == "true" || func() bool {
				// `return x, ok` under ok == true
				id, ok := ast.Unparen(rs.Results[1]).(*ast.Ident)
				if !ok {
					return false
				}
				for _, f := range gg.FactsAt(rv.ID) {
					if fid, ok := ast.Unparen(f.Expr).(*ast.Ident); ok && f.Tag == nil && f.Val && astx.Obj(gi, fid) == astx.Obj(gi, id) {
						return true
					}
				}
				return false
			}() {
				nOK++
				whole := false
				if se, ok := ast.Unparen(rs.Results[0]).(*ast.SelectorExpr); ok && se.Sel.Name == "Messages" {
					if d := uniqueDef(gi, get.Node(), se.X); d != nil {
						if call, ok := ast.Unparen(d).(*ast.CallExpr); ok {
							if fn := astx.Callee(gi, call); fn != nil && fname(fn) == "getUnlocked" {
								whole = true
							}
						}
					}
				}
				r.Check(whole, "C08.S9", get.Name(), "a found batch is returned whole", c.P.Pos(rs.Pos()), "<batch from getUnlocked>.Messages, unsliced",
					"Get does not hand back exactly the messages that were added under the id (a slice, a filtered copy, another batch): its callers index the result by reply number themselves, so replies are skipped or delivered twice")
			}
		}
		if nOK == 0 {
			r.Break("C08.S9: no 'found' return in OutputStream.Get")
		}
	}
	// ---- GetNext
	gn := c.MustFunc("outputstream.(*OutputStream).GetNext")
	if gn == nil || gn.Body() == nil {
		return
	}
	info := gn.Info()
	g := c.Graph(gn)
	gu := c.P.Func("outputstream.(*OutputStream).getUnlocked")
	isNewIter := func(n ast.Node, ranged int) *ast.CallExpr { // ranged: 1 ranged, 0 unranged, -1 any
		if n == nil {
			return nil
		}
		for _, call := range astx.Calls(n, false) {
			if leveldbCall(info, call, "NewIterator") && len(call.Args) == 2 {
				isNil := isNilIdent(info, call.Args[0])
				if ranged == -1 || (ranged == 1) == !isNil {
					return call
				}
			}
		}
		return nil
	}
	// (a) whenever the successor look-up failed, the range search runs before the wait section
	isCondWait := func(i2 *types.Info, call *ast.CallExpr) bool {
		if se, ok := ast.Unparen(call.Fun).(*ast.SelectorExpr); ok && se.Sel.Name == "Wait" {
			if fn := astx.Callee(i2, call); fn != nil && fn.Pkg() != nil && fn.Pkg().Path() == "sync" {
				return true
			}
		}
		return false
	}
	// the function that holds the wait loop: GetNext itself or a helper it calls
	waitFn := gn
	waiters := map[*types.Func]*load.FuncInfo{}
	for _, fi := range c.P.FuncsIn("outputstream") {
		if fi.Body() == nil || fi.Obj == nil {
			continue
		}
		for _, call := range astx.Calls(fi.Body(), false) {
			if isCondWait(fi.Info(), call) {
				waiters[fi.Obj] = fi
			}
		}
	}
	var waitLock = -1
	for _, v := range g.Nodes() {
		if isLockCall(info, v.Node, "messagesMu", "Lock") {
			waitLock = v.ID
		}
	}
	if waitLock < 0 {
		for _, v := range g.Nodes() {
			for _, call := range astx.Calls(v.Node, false) {
				if fn := astx.Callee(info, call); fn != nil && waiters[fn] != nil {
					waitLock, waitFn = v.ID, waiters[fn]
				}
			}
		}
	}
	nFail := 0
	for _, v := range g.V {
		for _, e := range v.Succ {
			if e.Cond == nil {
				continue
			}
			// a fact "<flag> is false" on this edge (`if okNext {` false edge, `if !ok {` true edge)
			var id *ast.Ident
			for _, f := range cfgx.ExpandCond(e.Cond, e.Val) {
				if fid, ok := ast.Unparen(f.Expr).(*ast.Ident); ok && f.Tag == nil && !f.Val {
					id = fid
				}
			}
			if id == nil {
				continue
			}
			// the ok of a look-up by NextID
			isSucc := false
			for _, d := range defsOf(info, gn.Node(), astx.Obj(info, id)) {
				if call, ok := ast.Unparen(d).(*ast.CallExpr); d != nil && ok && gu != nil && astx.Callee(info, call) == gu.Obj && len(call.Args) == 1 {
					if se, ok := ast.Unparen(call.Args[0]).(*ast.SelectorExpr); ok && se.Sel.Name == "NextID" {
						isSucc = true
					}
				}
			}
			if !isSucc || waitLock < 0 || !g.Reach(e.To, nil, nil)[waitLock] {
				continue
			}
			// only the look-up before the wait section (the one inside the wait loop comes after the Lock)
			if g.Reach(waitLock, nil, nil)[v.ID] {
				continue
			}
			nFail++
			// edges that assert a flag to be true although every path from here to the test has just set it to false are not
			// feasible (`ok = false` … `if !ok {`)
			// edges that contradict the constant every path from here to the test has just stored are not feasible:
			// `ok = false` … `if ok {`, `current = nil` … `if current != nil {` (also as one position of a tuple assignment)
			setsConst := func(x int, obj types.Object) string {
				as, ok := g.V[x].Node.(*ast.AssignStmt)
				if !ok || len(as.Lhs) != len(as.Rhs) {
					return ""
				}
				for i, l := range as.Lhs {
					lid, ok := l.(*ast.Ident)
					if !ok || astx.Obj(info, lid) != obj {
						continue
					}
					if rid, ok := ast.Unparen(as.Rhs[i]).(*ast.Ident); ok && (rid.Name == "false" || rid.Name == "nil") && info.Uses[rid] != nil && info.Uses[rid].Parent() == types.Universe {
						return rid.Name
					}
					return "other"
				}
				return ""
			}
			assigns := func(x int, obj types.Object) bool { return setsConst(x, obj) != "" }
			from := e.To
			// holds(obj, k): on every path from `from` to x the last assignment to obj stored the constant k
			holds := func(obj types.Object, k string, x int) bool {
				// some assignment of k must be passed, and no path from an assignment of something else (or from `from` without any
				// assignment) reaches x without passing an assignment of k
				isK := func(y int) bool { return setsConst(y, obj) == k }
				if !isK(from) && g.Reach(from, isK, nil)[x] {
					return false
				}
				for y := range g.V {
					if c := setsConst(y, obj); c != "" && c != k && g.Reach(from, nil, nil)[y] && g.Reach(y, isK, nil)[x] && y != x {
						return false
					}
				}
				_ = assigns
				return true
			}
			infeasible := func(e2 *cfgx.Edge) bool {
				if e2.Cond == nil {
					return false
				}
				for _, f := range cfgx.ExpandCond(e2.Cond, e2.Val) {
					if f.Tag != nil {
						continue
					}
					if fid, ok := ast.Unparen(f.Expr).(*ast.Ident); ok && f.Val {
						if obj := astx.Obj(info, fid); obj != nil && holds(obj, "false", e2.From) {
							return true
						}
					}
					if x, isNil, ok := nilCompare(info, f); ok && !isNil {
						if xid, ok := ast.Unparen(x).(*ast.Ident); ok {
							if obj := astx.Obj(info, xid); obj != nil && holds(obj, "nil", e2.From) {
								return true
							}
						}
					}
				}
				return false
			}
			skipped := g.Reach(e.To, func(x int) bool { return isNewIter(g.V[x].Node, 1) != nil }, infeasible)[waitLock]
			r.Check(!skipped, "C08.S9", gn.Name(), "a failed successor look-up leads to the range search", c.P.Pos(e.Cond.Pos()), "every path from the not-found edge to the wait section passes the ranged NewIterator",
				"when the batch NextID points to was deleted, GetNext goes to wait behind the position instead of searching for the smallest newer batch: it stays blocked although a successor exists")
		}
	}
	if nFail == 0 {
		r.Break("C08.S9: no failed-successor edge found before the wait section of GetNext")
	}
	// (b) the fall-back "take the newest batch" is used only when the range search found nothing, and reads an unranged iterator
	nFall := 0
	for _, v := range g.Nodes() {
		call := isNewIter(v.Node, 0)
		if call == nil {
			continue
		}
		nFall++
		okMiss := false
		for _, f := range g.FactsAt(v.ID) {
			if fc, ok := ast.Unparen(f.Expr).(*ast.CallExpr); ok && f.Tag == nil && !f.Val && leveldbCall(info, fc, "First", "Next", "Valid") {
				okMiss = true
			}
		}
		r.Check(okMiss, "C08.S9", gn.Name(), "the newest-batch fall-back is taken only when the range search found nothing", c.P.Pos(call.Pos()), "dominated by First() == false of the ranged iterator",
			"the hit of the range search is not returned: GetNext takes the newest batch as its position and waits, skipping every batch between the asked position and the newest one")
	}
	for _, v := range g.Nodes() {
		for _, call := range astx.Calls(v.Node, false) {
			if !leveldbCall(info, call, "Last") {
				continue
			}
			se := ast.Unparen(call.Fun).(*ast.SelectorExpr)
			id, ok := ast.Unparen(se.X).(*ast.Ident)
			if !ok {
				continue
			}
			obj := astx.Obj(info, id)
			// definitions of the iterator variable reaching this call
			var defs []int
			for _, d := range g.Nodes() {
				if as, ok := d.Node.(*ast.AssignStmt); ok {
					for _, l := range as.Lhs {
						if lid, ok := l.(*ast.Ident); ok && astx.Obj(info, lid) == obj {
							defs = append(defs, d.ID)
						}
					}
				}
			}
			isDef := func(x int) bool {
				for _, d := range defs {
					if d == x {
						return true
					}
				}
				return false
			}
			okUnr := len(defs) > 0
			for _, d := range defs {
				reaches := false
				for _, e := range g.V[d].Succ {
					if e.To == v.ID || g.Reach(e.To, isDef, nil)[v.ID] {
						reaches = true
					}
				}
				if reaches && isNewIter(g.V[d].Node, 0) == nil {
					okUnr = false
				}
			}
			r.Check(okUnr, "C08.S9", gn.Name(), "the newest batch is read from an iterator over the whole store", c.P.Pos(call.Pos()), "every definition of the iterator reaching Last() is NewIterator(nil, nil)",
				"Last() is evaluated on the iterator of the (empty) range search: it reports no entry, and the 'store is empty' panic kills the process whenever a reader asks for a position at or behind the newest batch that has been deleted")
		}
	}
	if nFall == 0 {
		r.Break("C08.S9: no unranged NewIterator found in GetNext")
	}
	// (c) the wait loop waits on every way round
	wi, wg := waitFn.Info(), c.Graph(waitFn)
	ast.Inspect(waitFn.Body(), func(n ast.Node) bool {
		fs, ok := n.(*ast.ForStmt)
		if !ok || len(fs.Body.List) == 0 {
			return true
		}
		hasLookup := false
		for _, call := range astx.Calls(fs.Body, false) {
			if gu != nil && astx.Callee(wi, call) == gu.Obj {
				hasLookup = true
			}
		}
		if !hasLookup {
			return true
		}
		start := wg.VertexOf(fs.Body.List[0])
		isWait := func(x int) bool {
			if wg.V[x].Node == nil {
				return false
			}
			for _, call := range astx.Calls(wg.V[x].Node, false) {
				if isCondWait(wi, call) {
					return true
				}
			}
			return false
		}
		spin := false
		if start >= 0 {
			reach := wg.Reach(start, isWait, nil)
			for x := range wg.V {
				if !(reach[x] || x == start) || isWait(x) {
					continue
				}
				for _, e := range wg.V[x].Succ {
					if e.To == start && x != start {
						spin = true
					}
				}
			}
		}
		r.Check(start >= 0 && !spin, "C08.S9", waitFn.Name(), "the wait loop blocks on the condition variable on every way round", c.P.Pos(fs.Pos()), "newMessage.Wait() on every path back to the loop head",
			"the loop that waits for the successor can go round without calling Wait(): it spins with messagesMu held in write mode, so Add can never store the batch it is waiting for")
		return true
	})
}

// throughLocal strips conversions from e and, when what remains is a local with a single definition, continues with the
// defining expression — provided no statement between that definition and vertex `at` assigns to an operand of the
// definition (guard is unused, kept for the call sites' readability).
func (c *Ctx) throughLocal(fi *load.FuncInfo, g *cfgx.Graph, e ast.Expr, at int, guard ast.Expr) ast.Expr {
	info := fi.Info()
	for k := 0; k < 3; k++ {
		e = stripConv(info, e)
		id, ok := ast.Unparen(e).(*ast.Ident)
		if !ok {
			return e
		}
		if _, isVar := astx.Obj(info, id).(*types.Var); !isVar {
			return e
		}
		d := uniqueDef(info, fi.Node(), id)
		if d == nil {
			return e
		}
		dv := g.VertexOf(d)
		if dv < 0 || at < 0 {
			return e
		}
		// no operand of the definition is assigned between the definition and the use
		def := d
		if g.Between(dv, at, func(x *cfgx.Vertex) bool {
			as, ok := x.Node.(*ast.AssignStmt)
			if !ok || x.ID == dv {
				return false
			}
			for _, l := range as.Lhs {
				hit := false
				ast.Inspect(def, func(m ast.Node) bool {
					if me, ok := m.(ast.Expr); ok && astx.Same(info, me, l) {
						hit = true
					}
					return !hit
				})
				if hit {
					return true
				}
			}
			return false
		}) {
			return e
		}
		e = d
	}
	return stripConv(info, e)
}
