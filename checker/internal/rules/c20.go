package rules

import (
	"fmt"
	"go/ast"
	"go/token"
	"go/types"
	"sort"
	"strings"

	"verif/checker/internal/astx"
	"verif/checker/internal/cfgx"
	"verif/checker/internal/load"
)

func init() { register("C20", c20) }

// access is one read or write of a guarded struct field.
type access struct {
	fi    *load.FuncInfo
	field *types.Var
	write bool
	node  ast.Node
	recv  ast.Expr // expression owning the field
	inLit bool     // inside a function literal (goroutine / callback): no lock of the enclosing function counts
}

func c20(c *Ctx) {
	r := c.R
	r.Explanation = "A static lockset / ownership analysis (Eraser's discipline decided on the source): for every guarded memory location of the IRC server, the output stream, the LevelDB store and the swapped pointers in api.HTTP (frozen lock table below), every read and write in the module is enumerated, the set of locks held on every path to it is computed by a forward data-flow over the statement-level CFG with entry locksets propagated over the call graph (intersection over call sites, registry handlers inherit ProcessMessage's write lock), and a write needs its lock in write mode, a read in read or write mode. Exemptions: construction (objects not yet published), fields never written after construction, and methods that never lock their receiver's mutex, whose obligation moves to their call sites (receiver unpublished or lock held). References to guarded memory that leave a critical section (returned pointers, shallow struct copies carrying maps) are judged at their uses. Type-level (not instance-level); lock order is reported as an observation only."
	r.Rules = []string{"C20.Q1 lockset at every access", "C20.Q2 construction is private / call-site obligations", "C20.Q3 guarded references do not escape", "C20.Q4 lock order (observation)", "C20.Q5 lock hygiene"}

	// ---------- lock table
	guard := map[*types.Var]string{} // field -> lock name
	tableDesc := map[string][]string{}
	add := func(pkg, typ, lock string, fields ...string) {
		for _, fn := range fields {
			if v := c.P.Field(pkg, typ, fn); v != nil {
				guard[v] = lock
				tableDesc[lock] = append(tableDesc[lock], typ+"."+fn)
			} else {
				r.Break("lock table: field %s.%s.%s not found", pkg, typ, fn)
			}
		}
	}
	add("ircserver", "IRCServer", "IRCServer.sessionsMu", "sessions", "nicks", "channels", "svsholds", "serverSessions")
	add("ircserver", "IRCServer", "IRCServer.ConfigMu", "Config")
	add("ircserver", "IRCServer", "IRCServer.lastProcessedMu", "lastProcessed")
	for _, typ := range []string{"Session", "channel"} {
		if n := c.P.Named("ircserver", typ); n != nil {
			for _, fv := range structFields(n) {
				guard[fv] = "IRCServer.sessionsMu"
			}
			tableDesc["IRCServer.sessionsMu"] = append(tableDesc["IRCServer.sessionsMu"], typ+".*")
		}
	}
	add("outputstream", "OutputStream", "OutputStream.messagesMu", "db", "batch", "lastseen")
	add("outputstream", "OutputStream", "OutputStream.cacheMu", "messagesCache")
	add("raftstore", "LevelDBStore", "LevelDBStore.mu", "db")
	add("api", "HTTP", "HTTP.mu", "ircServerUnlocked", "ircStoreUnlocked", "outputUnlocked")
	add("api", "HTTP", "HTTP.getMessagesRequestsMu", "getMessagesRequests")
	add("api", "HTTP", "HTTP.throttleMu", "lastWrongPassword", "throttlingExponent")
	add("main", "FSM", "FSM.sessionExpirationMu", "sessionExpirationDur")
	// ---------- Q6 package-level variables: the lock table covers struct fields; a package-level variable of the packages the
	// state machine and the API run in is shared by every goroutine (and every server instance) without any lock. Outside
	// init functions and start-up code such a variable is not written — assigned, incremented, written through an index or
	// a field, or handed out by address (a scratch buffer "to save an allocation")
	{
		allowedPV := map[string]string{
			"api.nodeProxies": "the proxy cache: written in setNodeProxy under nodeProxiesMu, which the functions named in Q1 hold",
		}
		nPV := 0
		for _, pk := range []string{"robust", "config", "ircserver", "outputstream", "raftstore", "raftlog", "api", "timesafeguard"} {
			for _, fi := range c.P.FuncsIn(pk) {
				if fi.Body() == nil || (fi.Decl != nil && fi.Decl.Name.Name == "init") {
					continue
				}
				info := fi.Info()
				isPV := func(e ast.Expr) *types.Var {
					for {
						switch x := ast.Unparen(e).(type) {
						case *ast.SelectorExpr:
							if info.Selections[x] == nil {
								return nil // pkg.Var of another package
							}
							e = x.X
							continue
						case *ast.IndexExpr:
							e = x.X
							continue
						case *ast.StarExpr:
							e = x.X
							continue
						case *ast.Ident:
							if v, ok := info.Uses[x].(*types.Var); ok && !v.IsField() && v.Pkg() != nil && v.Parent() == v.Pkg().Scope() && strings.HasPrefix(v.Pkg().Path(), load.ModPath) {
								return v
							}
						}
						return nil
					}
				}
				report := func(v *types.Var, at ast.Node, how string) {
					if v == nil {
						return
					}
					// metrics, flags and synchronisation objects are made for concurrent use
					ts := v.Type().String()
					if strings.Contains(ts, "prometheus") || strings.Contains(ts, "sync.") || strings.Contains(ts, "expvar") {
						return
					}
					nPV++
					_, ok := allowedPV[v.Pkg().Name()+"."+v.Name()]
					r.Check(ok, "C20.Q6", fi.Name(), "package-level variable "+v.Name()+" is not "+how, c.P.Pos(at.Pos()), allowedPV[v.Pkg().Name()+"."+v.Name()],
						"the package-level variable "+v.Name()+" is "+how+" in code that runs on several goroutines (the state machine, the HTTP handlers) and for several server instances (the live one, the one Snapshot folds into): an unsynchronised write to shared memory")
				}
				ast.Inspect(fi.Body(), func(n ast.Node) bool {
					switch x := n.(type) {
					case *ast.AssignStmt:
						if x.Tok == token.DEFINE {
							return true
						}
						for _, l := range x.Lhs {
							report(isPV(l), x, "written")
						}
					case *ast.IncDecStmt:
						report(isPV(x.X), x, "written")
					case *ast.UnaryExpr:
						if x.Op == token.AND {
							report(isPV(x.X), x, "handed out by address")
						}
					}
					return true
				})
			}
		}
		r.Extra["package_level_writes_seen"] = nPV
	}
	r.Extra["lock_table"] = tableDesc
	if len(r.Broken) > 0 {
		return
	}
	f := c.irc()

	// ---------- functions in scope
	var fns []*load.FuncInfo
	for _, fi := range c.P.AllFuncs {
		switch load.ShortPkg(fi.Pkg.PkgPath) {
		case "main", "api", "ircserver", "outputstream", "raftstore":
			if fi.Body() != nil {
				fns = append(fns, fi)
			}
		}
	}
	r.Functions = len(fns)

	// ---------- accesses
	var accesses []access
	mutators := map[*types.Var]map[*load.FuncInfo]bool{} // field -> functions that assign it (not composite-literal keys)
	for _, fi := range fns {
		info := fi.Info()
		writes := map[*ast.SelectorExpr]bool{}
		var litDepth int
		var visit func(n ast.Node)
		visit = func(n ast.Node) {
			ast.Inspect(n, func(m ast.Node) bool {
				switch x := m.(type) {
				case *ast.FuncLit:
					if m != n {
						litDepth++
						visit(x.Body)
						litDepth--
						return false
					}
				case *ast.AssignStmt:
					for _, l := range x.Lhs {
						markWrite(info, l, writes)
					}
				case *ast.IncDecStmt:
					markWrite(info, x.X, writes)
				case *ast.CallExpr:
					if astx.Builtin(info, x) == "delete" && len(x.Args) == 2 {
						markWrite(info, x.Args[0], writes)
					}
					if astx.Builtin(info, x) == "append" && len(x.Args) > 0 {
						// append may write the backing array; the assignment target is judged as the write
					}
				case *ast.SelectorExpr:
					fv := astx.FieldSel(info, x)
					if fv == nil {
						return true
					}
					if _, ok := guard[fv]; !ok {
						return true
					}
					accesses = append(accesses, access{fi: fi, field: fv, write: writes[x], node: x, recv: x.X, inLit: litDepth > 0})
					if writes[x] {
						if mutators[fv] == nil {
							mutators[fv] = map[*load.FuncInfo]bool{}
						}
						mutators[fv][fi] = true
					}
				}
				return true
			})
		}
		// first pass collects write positions (assignments precede their selectors in Inspect order only partially): two passes
		ast.Inspect(fi.Body(), func(m ast.Node) bool {
			switch x := m.(type) {
			case *ast.AssignStmt:
				for _, l := range x.Lhs {
					markWrite(info, l, writes)
				}
			case *ast.IncDecStmt:
				markWrite(info, x.X, writes)
			case *ast.CallExpr:
				if astx.Builtin(info, x) == "delete" && len(x.Args) == 2 {
					markWrite(info, x.Args[0], writes)
				}
			}
			return true
		})
		visit(fi.Body())
	}

	// ---------- constructors and construction-only functions
	isCtor := map[*load.FuncInfo]bool{}
	for _, fi := range fns {
		if fi.Obj == nil {
			continue
		}
		sig := fi.Obj.Type().(*types.Signature)
		if sig.Recv() != nil || sig.Results().Len() == 0 {
			continue
		}
		if strings.HasPrefix(fi.Obj.Name(), "New") {
			isCtor[fi] = true
		}
	}
	callersOf := map[*load.FuncInfo][]*load.FuncInfo{}
	type callSite struct {
		caller *load.FuncInfo
		call   *ast.CallExpr
		inLit  bool
	}
	sites := map[*load.FuncInfo][]callSite{}
	for _, fi := range fns {
		info := fi.Info()
		var depth int
		var visit func(n ast.Node)
		visit = func(n ast.Node) {
			ast.Inspect(n, func(m ast.Node) bool {
				switch x := m.(type) {
				case *ast.FuncLit:
					if m != n {
						depth++
						visit(x.Body)
						depth--
						return false
					}
				case *ast.GoStmt:
					depth++
					visit(x.Call)
					depth--
					return false
				case *ast.CallExpr:
					var cal *load.FuncInfo
					if fn := astx.Callee(info, x); fn != nil {
						cal = c.P.FuncOf(fn)
					} else if id, ok := ast.Unparen(x.Fun).(*ast.Ident); ok {
						if v, ok := info.Uses[id].(*types.Var); ok {
							cal = c.P.VarFunc(v)
						}
					}
					if cal != nil {
						sites[cal] = append(sites[cal], callSite{fi, x, depth > 0})
						callersOf[cal] = append(callersOf[cal], fi)
					}
				}
				return true
			})
		}
		visit(fi.Body())
	}
	constructionOnly := map[*load.FuncInfo]bool{}
	for _, fi := range fns {
		cs := callersOf[fi]
		if len(cs) == 0 || isCtor[fi] {
			continue
		}
		all := true
		for _, cl := range cs {
			if !isCtor[cl] {
				all = false
			}
		}
		if all {
			constructionOnly[fi] = true
		}
	}

	// ---------- entry locksets (fixed point: intersection over call sites)
	entry := map[*load.FuncInfo]lockSet{}
	known := map[*load.FuncInfo]bool{}
	isHandler := func(fi *load.FuncInfo) bool { return f.Client[fi] || f.Server[fi] }
	flows := map[*load.FuncInfo]*lockFlowResult{}
	graphs := map[*load.FuncInfo]*cfgx.Graph{}
	compute := func(fi *load.FuncInfo) {
		g := c.Graph(fi)
		graphs[fi] = g
		flows[fi] = c.lockFlow(fi, g, entry[fi])
	}
	// roots: no callers in scope (or only from function literals / goroutines)
	for _, fi := range fns {
		entry[fi] = lockSet{}
	}
	// registry dispatch: lockset at cmd.Func(...) in ProcessMessage
	var dispatchLocks lockSet
	if pm := f.PM; pm != nil {
		g := c.Graph(pm)
		lf := c.lockFlow(pm, g, lockSet{})
		info := pm.Info()
		for _, call := range astx.Calls(pm.Body(), false) {
			if se, ok := ast.Unparen(call.Fun).(*ast.SelectorExpr); ok && se.Sel.Name == "Func" {
				if tv, ok := info.Types[se.X]; ok && astx.NamedOf(tv.Type) != nil && astx.NamedOf(tv.Type).Obj().Name() == "ircCommand" {
					dispatchLocks = lf.must[g.VertexOf(call)].clone()
				}
			}
		}
	}
	if dispatchLocks == nil {
		r.Break("dispatch call cmd.Func(...) not found in ProcessMessage")
		return
	}
	r.Extra["dispatch_lockset"] = dispatchLocks.String()
	for iter := 0; iter < 12; iter++ {
		for _, fi := range fns {
			compute(fi)
		}
		changed := false
		for _, fi := range fns {
			var in lockSet
			first := true
			meet := func(s lockSet) {
				if first {
					in, first = s.clone(), false
					return
				}
				for k, v := range in {
					w, ok := s[k]
					if !ok {
						delete(in, k)
					} else if v == "W" && w != "W" {
						in[k] = "R"
					}
				}
			}
			if isHandler(fi) {
				meet(dispatchLocks)
			}
			for _, cs := range sites[fi] {
				if cs.inLit {
					meet(lockSet{})
					continue
				}
				g := graphs[cs.caller]
				v := g.VertexOf(cs.call)
				if v < 0 {
					meet(lockSet{})
					continue
				}
				meet(flows[cs.caller].must[v])
			}
			if first {
				in = lockSet{}
			}
			// exported methods can be called from other roles (HTTP, main, raft): no lock can be assumed
			if fi.Obj != nil && fi.Obj.Exported() && !isHandler(fi) && load.ShortPkg(fi.Pkg.PkgPath) != "main" {
				in = lockSet{}
			}
			if in.String() != entry[fi].String() {
				entry[fi] = in
				changed = true
			}
			known[fi] = true
		}
		if !changed {
			break
		}
	}
	for _, fi := range fns {
		compute(fi)
	}

	// ---------- fields that are never written after construction
	immutable := func(fv *types.Var) bool {
		for m := range mutators[fv] {
			if isCtor[m] || constructionOnly[m] {
				continue
			}
			return false
		}
		return true
	}

	// ---------- methods that never lock the mutex guarding their receiver's fields: obligation moves to call sites
	unlockedMethods := map[*load.FuncInfo]string{}
	for _, name := range []string{"ircserver.(*IRCServer).Unmarshal"} {
		fi := c.P.Func(name)
		if fi == nil {
			continue
		}
		// only while the method takes none of its receiver's locks itself; otherwise Q1 judges its accesses like any other
		takes := false
		for _, call := range astx.Calls(fi.Body(), false) {
			if op := lockOpOf(fi.Info(), call); op != nil && (op.op == "Lock" || op.op == "RLock") {
				takes = true
			}
		}
		if !takes {
			unlockedMethods[fi] = "loads a snapshot into a server that must not be shared yet"
		}
	}

	exceptions := map[string]string{
		"raftstore.(*LevelDBStore).Set":       "reads db without mu; the only post-construction writer is Close, which (who-calls) is invoked only on the irclog instance in FSM.Restore, never on the raftlog instance that serves as stable store",
		"raftstore.(*LevelDBStore).Get":       "as Set",
		"raftstore.(*LevelDBStore).SetUint64": "as Set",
		"raftstore.(*LevelDBStore).GetUint64": "as Set",
	}

	// ---------- Q1
	type vkey struct{ fn, field, kind string }
	reported := map[vkey]bool{}
	okCount := 0
	for _, a := range accesses {
		fi := a.fi
		lock := guard[a.field]
		if isCtor[fi] || constructionOnly[fi] {
			continue
		}
		if _, mv := unlockedMethods[fi]; mv {
			continue
		}
		if !a.write && immutable(a.field) {
			okCount++
			continue
		}
		// a local variable of struct (value) type is a private copy: accessing its own fields touches no shared memory
		if id, ok := ast.Unparen(a.recv).(*ast.Ident); ok {
			if v, ok := astx.Obj(fi.Info(), id).(*types.Var); ok && v.Pkg() != nil && v.Parent() != v.Pkg().Scope() && !v.IsField() {
				if _, isStruct := v.Type().Underlying().(*types.Struct); isStruct {
					okCount++
					continue
				}
			}
		}
		// fresh local object: the receiver is a local defined in this function from a constructor / literal and not yet published
		if c.freshLocal(fi, a.recv, a.node) {
			okCount++
			continue
		}
		var held lockSet
		if a.inLit {
			held = lockSet{}
		} else {
			g := graphs[fi]
			v := g.VertexOf(a.node)
			if v < 0 {
				held = entry[fi]
			} else {
				held = flows[fi].must[v]
				// the statement that takes the lock is itself not an access; deferred unlocks keep the lock
			}
		}
		mode := held[lock]
		ok := (a.write && mode == "W") || (!a.write && (mode == "R" || mode == "W"))
		kind := "read"
		if a.write {
			kind = "write"
		}
		owner := "?"
		if tv, okT := fi.Info().Types[a.recv]; okT {
			if n := astx.NamedOf(tv.Type); n != nil {
				owner = n.Obj().Name()
			}
		}
		fieldName := owner + "." + a.field.Name()
		k := vkey{fi.Name(), fieldName, kind}
		if ok {
			okCount++
			if !reported[k] {
				reported[k] = true
				r.Ok("C20.Q1", fi.Name(), kind+" of "+fieldName+" under "+lock, c.P.Pos(a.node.Pos()), "lockset "+held.String())
			}
			continue
		}
		// a violating access is reported even if another access of the same kind in this function was fine
		kv := vkey{fi.Name(), fieldName, kind + "!"}
		if reported[kv] {
			continue
		}
		reported[kv] = true
		construct := kind + " of " + fieldName + " without " + lock
		if a.write && mode == "R" {
			construct = "write of " + fieldName + " under a read lock (" + lock + ")"
		}
		if why, isExc := exceptions[fi.Name()]; isExc {
			r.Except("C20.Q1", fi.Name(), construct, c.P.Pos(a.node.Pos()), why)
			continue
		}
		detail := "the location is guarded by " + lock + " (lock table) and is written by other roles (" + strings.Join(mutatorNames(mutators[a.field], 4), ", ") + "); here the lockset is " + held.String() + ": a data race in the sense of the Go memory model when this runs concurrently with the state machine / another HTTP handler"
		r.Fail("C20.Q1", fi.Name(), construct, c.P.Pos(a.node.Pos()), detail)
	}
	// ---------- Q1b: fields of the lock-owning structs that are NOT in the lock table are read-only after construction: any
	// write to one (assignment, ++, taking a slice of or the address of it — scratch buffers, caches, counters added later)
	// outside construction needs one of the struct's mutexes in write mode
	{
		owners := map[*types.Named]bool{}
		for fv := range guard {
			_ = fv
		}
		for _, on := range [][2]string{{"ircserver", "IRCServer"}, {"outputstream", "OutputStream"}, {"raftstore", "LevelDBStore"}, {"api", "HTTP"}} { // not FSM: raft calls Apply, Snapshot and Restore from one goroutine, its unlisted fields are single-role
			if n := c.P.Named(on[0], on[1]); n != nil {
				owners[n] = true
			}
		}
		// batches are shared between all readers through the cache of the output stream: their fields are protected by the
		// stream's locks
		lockOwner := map[*types.Named]string{}
		if n := c.P.Named("outputstream", "messageBatch"); n != nil {
			owners[n] = true
			lockOwner[n] = "OutputStream"
		}
		nW := 0
		for _, fi := range fns {
			if isCtor[fi] || constructionOnly[fi] || fi.Body() == nil {
				continue
			}
			if _, mv := unlockedMethods[fi]; mv {
				continue
			}
			info := fi.Info()
			g := graphs[fi]
			if g == nil {
				continue
			}
			check := func(se *ast.SelectorExpr, node ast.Node, how string) {
				fv := astx.FieldSel(info, se)
				if fv == nil {
					return
				}
				if _, listed := guard[fv]; listed || isMutexType(fv.Type()) {
					return
				}
				tv, ok := info.Types[se.X]
				if !ok {
					return
				}
				on := astx.NamedOf(tv.Type)
				if on == nil || !owners[on] {
					return
				}
				if c.freshLocal(fi, se.X, node) {
					return
				}
				nW++
				v := g.VertexOf(node)
				held := entry[fi]
				if v >= 0 {
					held = flows[fi].must[v]
				}
				okW := false
				ownerName := on.Obj().Name()
				if lo, ok := lockOwner[on]; ok {
					ownerName = lo
				}
				for lk, mode := range held {
					if strings.HasPrefix(lk, ownerName+".") && mode == "W" {
						okW = true
					}
				}
				r.Check(okW, "C20.Q1", fi.Name(), how+" "+on.Obj().Name()+"."+fv.Name()+" (not in the lock table) under a write lock", c.P.Pos(node.Pos()), "lockset "+held.String(),
					"a field of "+on.Obj().Name()+" that the lock table does not list is modified after construction without one of the struct's mutexes in write mode (lockset "+held.String()+"): methods of this type run concurrently on several goroutines, so this is a data race — e.g. a scratch buffer shared by all readers under the read lock")
			}
			ast.Inspect(fi.Body(), func(n ast.Node) bool {
				switch x := n.(type) {
				case *ast.FuncLit:
					return false
				case *ast.AssignStmt:
					for _, l := range x.Lhs {
						e := ast.Unparen(l)
						for {
							if ie, ok := e.(*ast.IndexExpr); ok {
								e = ast.Unparen(ie.X)
								continue
							}
							break
						}
						if se, ok := e.(*ast.SelectorExpr); ok {
							check(se, x, "write of")
						}
					}
				case *ast.IncDecStmt:
					if se, ok := ast.Unparen(x.X).(*ast.SelectorExpr); ok {
						check(se, x, "write of")
					}
				case *ast.SliceExpr:
					if se, ok := ast.Unparen(x.X).(*ast.SelectorExpr); ok {
						if tv, ok := info.Types[se]; ok {
							if _, isArr := tv.Type.Underlying().(*types.Array); isArr {
								check(se, x, "mutable slice of")
							}
						}
					}
				case *ast.UnaryExpr:
					if x.Op == token.AND {
						if se, ok := ast.Unparen(x.X).(*ast.SelectorExpr); ok {
							if tv, ok := info.Types[se]; ok {
								switch tv.Type.Underlying().(type) {
								case *types.Array, *types.Basic:
									check(se, x, "address of")
								case *types.Struct:
									// a struct-valued scratch field handed to a decoder by address is written by it; a struct
									// that carries its own mutex (a cache type with methods) looks after itself
									st := tv.Type.Underlying().(*types.Struct)
									own := false
									for k := 0; k < st.NumFields(); k++ {
										if isMutexType(st.Field(k).Type()) {
											own = true
										}
									}
									if !own {
										check(se, x, "address of")
									}
								}
							}
						}
					}
				}
				return true
			})
		}
		r.Extra["unlisted_field_writes_checked"] = nW
	}
	r.Ok("C20.Q1", "module", "accesses with a sufficient lockset", "-", itoa(okCount)+" of "+itoa(len(accesses))+" field accesses in "+itoa(len(fns))+" functions hold their lock in a sufficient mode (or are construction / immutable-field accesses)")
	if len(accesses) < 400 {
		r.Break("only %d guarded accesses found (expected > 400)", len(accesses))
	}

	// ---------- Q2 call-site obligations
	for m, why := range unlockedMethods {
		for _, cs := range sites[m] {
			info := cs.caller.Info()
			se, ok := ast.Unparen(cs.call.Fun).(*ast.SelectorExpr)
			if !ok {
				continue
			}
			pos := c.P.Pos(cs.call.Pos())
			fresh := c.freshLocal(cs.caller, se.X, cs.call)
			_ = info
			r.Check(fresh, "C20.Q2", cs.caller.Name(), "call of "+shortName(m)+" on "+astx.Str(se.X), pos, "receiver is a local object that has not been published yet",
				shortName(m)+" "+why+" (it writes every map of the server without taking sessionsMu/ConfigMu), but here it runs on a server that was already handed to the HTTP API (ReplaceState) / is a package-level variable: concurrent HTTP handlers race with the load")
		}
	}

	// ---------- Q3 shallow copies of guarded structs that carry reference-typed fields
	sessionT := c.P.Named("ircserver", "Session")
	for _, fi := range fns {
		info := fi.Info()
		ast.Inspect(fi.Body(), func(n ast.Node) bool {
			st, ok := n.(*ast.StarExpr)
			if !ok {
				return true
			}
			tv, ok := info.Types[st]
			if !ok || astx.NamedOf(tv.Type) != sessionT || sessionT == nil {
				return true
			}
			if _, isPtr := tv.Type.(*types.Pointer); isPtr {
				return true
			}
			// *session used as a value (copied)
			var refFields []string
			for _, fv := range structFields(sessionT) {
				switch fv.Type().Underlying().(type) {
				case *types.Map, *types.Slice, *types.Pointer:
					refFields = append(refFields, fv.Name())
				}
			}
			// accepted: the copy is a local whose map/slice fields are all replaced before it leaves the function
			deep := false
			ast.Inspect(fi.Body(), func(m ast.Node) bool {
				as, ok := m.(*ast.AssignStmt)
				if !ok || len(as.Lhs) != 1 || len(as.Rhs) != 1 || ast.Unparen(as.Rhs[0]) != ast.Expr(st) {
					return true
				}
				lid, ok := as.Lhs[0].(*ast.Ident)
				if !ok {
					return true
				}
				lobj := astx.Obj(info, lid)
				// where the copy leaves the function's hands: used as a whole value (stored, passed, returned)
				g := c.Graph(fi)
				var escapes []int
				for _, v := range g.Nodes() {
					if v.Node == nil || v.Node == ast.Node(as) {
						continue
					}
					whole := false
					ast.Inspect(v.Node, func(k ast.Node) bool {
						switch x := k.(type) {
						case *ast.SelectorExpr:
							// copied.F is not a use of the whole value
							if bid, ok := ast.Unparen(x.X).(*ast.Ident); ok && astx.Obj(info, bid) == lobj {
								return false
							}
						case *ast.Ident:
							if astx.Obj(info, x) == lobj {
								whole = true
							}
						}
						return true
					})
					if whole {
						escapes = append(escapes, v.ID)
					}
				}
				replaced := map[string]bool{}
				for _, v := range g.Nodes() {
					a2, ok := v.Node.(*ast.AssignStmt)
					if !ok {
						continue
					}
					for _, l := range a2.Lhs {
						if se, ok := ast.Unparen(l).(*ast.SelectorExpr); ok {
							if bid, ok := ast.Unparen(se.X).(*ast.Ident); ok && astx.Obj(info, bid) == lobj {
								// the replacement counts only if it happens on every path to every escape
								domAll := len(escapes) > 0
								for _, ev := range escapes {
									if !g.DominatedBy(ev, func(x *cfgx.Vertex) bool { return x.ID == v.ID }) {
										domAll = false
									}
								}
								if domAll {
									replaced[se.Sel.Name] = true
								}
							}
						}
					}
				}
				all := true
				for _, fv := range structFields(sessionT) {
					switch fv.Type().Underlying().(type) {
					case *types.Map, *types.Slice:
						if !replaced[fv.Name()] {
							all = false
						}
					}
				}
				deep = all
				return true
			})
			if deep {
				r.Ok("C20.Q3", fi.Name(), "copy of Session with its maps replaced", c.P.Pos(st.Pos()), "every map/slice field of the copy is re-allocated before it escapes")
				return true
			}
			if len(refFields) > 0 && fi.Obj != nil && fi.Obj.Exported() {
				r.Fail("C20.Q3", fi.Name(), "shallow copy of Session escapes the critical section", c.P.Pos(st.Pos()),
					"the copy shares the maps "+strings.Join(refFields, ", ")+" with the live session; callers (status templates) iterate them after the lock is released while the state machine inserts into them")
			}
			return true
		})
	}

	// ---------- Q3b: whole guarded maps/slices must not leave the critical section inside a returned structure
	for _, fi := range fns {
		if fi.Obj == nil || fi.Body() == nil { // (functions without results too: what they copy under a lock they may use after it)
			continue
		}
		info := fi.Info()
		// does the function take any lock itself?
		takes := false
		for _, call := range astx.Calls(fi.Body(), false) {
			if op := lockOpOf(info, call); op != nil && (op.op == "Lock" || op.op == "RLock") {
				takes = true
			}
		}
		if !takes {
			continue
		}
		// carriers: locals that hold (transitively) a whole guarded reference value
		carriers := map[types.Object]string{}
		wholeGuardedRef := func(e ast.Expr) string {
			se, ok := ast.Unparen(e).(*ast.SelectorExpr)
			if !ok {
				return ""
			}
			// any selector chain that passes through a guarded field and has map/slice type
			tv, ok := info.Types[se]
			if !ok {
				return ""
			}
			switch t := tv.Type.Underlying().(type) {
			case *types.Map, *types.Slice:
			case *types.Struct:
				// a struct copied by value still shares its map and slice fields with the original
				hasRef := false
				for k := 0; k < t.NumFields(); k++ {
					switch t.Field(k).Type().Underlying().(type) {
					case *types.Map, *types.Slice:
						hasRef = true
					}
				}
				if !hasRef {
					return ""
				}
			default:
				return ""
			}
			for _, fl := range lhsChainFields(info, se) {
				if _, g := guard[fl]; g {
					return astx.Str(se)
				}
			}
			return ""
		}
		for changed := true; changed; {
			changed = false
			ast.Inspect(fi.Body(), func(n ast.Node) bool {
				as, ok := n.(*ast.AssignStmt)
				if !ok {
					return true
				}
				for i, l := range as.Lhs {
					id, ok := l.(*ast.Ident)
					if !ok || len(as.Rhs) != len(as.Lhs) {
						continue
					}
					o := astx.Obj(info, id)
					if o == nil || carriers[o] != "" {
						continue
					}
					what := ""
					ast.Inspect(as.Rhs[i], func(m ast.Node) bool {
						switch x := m.(type) {
						case *ast.CallExpr:
							// values passed through calls (make, append of copies, conversions, String()) are copies / encodings
							if astx.Builtin(info, x) == "append" {
								return true
							}
							return false
						case *ast.KeyValueExpr:
							if w := wholeGuardedRef(x.Value); w != "" {
								what = w
							}
							if vid, ok := ast.Unparen(x.Value).(*ast.Ident); ok {
								if c2 := carriers[astx.Obj(info, vid)]; c2 != "" {
									what = c2
								}
							}
						case *ast.Ident:
							if c2 := carriers[astx.Obj(info, x)]; c2 != "" && m != ast.Node(id) {
								what = c2
							}
						}
						return true
					})
					if w := wholeGuardedRef(as.Rhs[i]); w != "" {
						what = w
					}
					if what != "" {
						carriers[o] = what
						changed = true
					}
				}
				return true
			})
		}
		escaped := false
		ast.Inspect(fi.Body(), func(n ast.Node) bool {
			rs, ok := n.(*ast.ReturnStmt)
			if !ok {
				return true
			}
			for _, res := range rs.Results {
				// what the returned expression itself carries: the value as a whole, the operand of &, or an element of a
				// composite literal (a selected scalar component such as x.lastseen.Messages[0].Id carries nothing)
				var carries func(e ast.Expr) string
				carries = func(e ast.Expr) string {
					switch x := ast.Unparen(e).(type) {
					case *ast.UnaryExpr:
						if x.Op == token.AND {
							return carries(x.X)
						}
					case *ast.Ident:
						return carriers[astx.Obj(info, x)]
					case *ast.SelectorExpr:
						return wholeGuardedRef(x)
					case *ast.CompositeLit:
						for _, el := range x.Elts {
							v := el
							if kv, ok := el.(*ast.KeyValueExpr); ok {
								v = kv.Value
							}
							if w := carries(v); w != "" {
								return w
							}
						}
					}
					return ""
				}
				what := carries(res)
				if what != "" {
					escaped = true
					r.Fail("C20.Q3", fi.Name(), "returns a structure that aliases "+what, c.P.Pos(rs.Pos()),
						"the returned value still points at the live "+what+" (guarded by "+"its mutex), and the lock is released when the function returns: the caller reads the map without the lock while the state machine writes it")
				}
			}
			return true
		})
		// … nor is used after the lock it was taken under has been released in this very function (a copy made under the
		// lock "so that the slow part can run without it": the copy's maps are the live maps)
		if g := graphs[fi]; g != nil && flows[fi] != nil && len(carriers) > 0 {
			defHeld := map[types.Object]lockSet{}
			for _, v := range g.Nodes() {
				as, ok := v.Node.(*ast.AssignStmt)
				if !ok {
					continue
				}
				for _, l := range as.Lhs {
					if id, ok := l.(*ast.Ident); ok {
						if o := astx.Obj(info, id); o != nil && carriers[o] != "" && defHeld[o] == nil && len(flows[fi].must[v.ID]) > 0 {
							defHeld[o] = flows[fi].must[v.ID]
						}
					}
				}
			}
			reported := map[types.Object]bool{}
			for _, v := range g.Nodes() {
				if v.Node == nil {
					continue
				}
				if _, isRet := v.Node.(*ast.ReturnStmt); isRet {
					continue // judged above
				}
				ast.Inspect(v.Node, func(m ast.Node) bool {
					if _, isLit := m.(*ast.FuncLit); isLit {
						return false
					}
					id, ok := m.(*ast.Ident)
					if !ok {
						return true
					}
					o := info.Uses[id]
					held, tracked := defHeld[o]
					if !tracked || reported[o] {
						return true
					}
					still := false
					for lk := range held {
						if flows[fi].must[v.ID][lk] != "" || flows[fi].may[v.ID][lk] != "" {
							still = true
						}
					}
					if !still {
						reported[o], escaped = true, true
						r.Fail("C20.Q3", fi.Name(), "a local that aliases "+carriers[o]+" is used after the lock was released", c.P.Pos(id.Pos()),
							"the local "+id.Name+" was filled under "+held.String()+" and still points at the live "+carriers[o]+"; here none of those locks is held any more: the maps and slices it shares with the state are read while the state machine writes them")
					}
					return true
				})
			}
		}
		if !escaped && len(carriers) > 0 {
			r.Ok("C20.Q3", fi.Name(), "aliases of guarded maps stay inside the critical section", c.P.Pos(fi.Node().Pos()), fmt.Sprintf("%d local(s) alias guarded maps/slices; none is returned", len(carriers)))
		}
	}

	// ---------- Q3c: outside package ircserver a *Session is never dereferenced as a whole (`*s`): the pointer GetSession hands
	// out is valid without the lock only for the fields its callers are known to read; copying the struct reads every
	// field, including the maps, while the state machine writes them
	{
		sessT := c.P.Named("ircserver", "Session")
		for _, fi := range c.P.AllFuncs {
			if fi.Body() == nil || load.ShortPkg(fi.Pkg.PkgPath) == "ircserver" || !strings.HasPrefix(fi.Pkg.PkgPath, load.ModPath) {
				continue
			}
			info := fi.Info()
			ast.Inspect(fi.Body(), func(n ast.Node) bool {
				st, ok := n.(*ast.StarExpr)
				if !ok {
					return true
				}
				if tv, ok := info.Types[st]; ok && tv.IsValue() && sessT != nil && astx.NamedOf(tv.Type) == sessT {
					if _, isPtr := tv.Type.(*types.Pointer); !isPtr {
						r.Fail("C20.Q3", fi.Name(), "a session is not copied through a pointer outside the IRC server", c.P.Pos(st.Pos()),
							"a whole Session is read through a pointer obtained without (or after releasing) sessionsMu: the copy reads every field and shares the maps, while the state machine modifies them — use GetSessions(), which copies under the lock")
					}
				}
				return true
			})
		}
	}
	// ---------- Q5 lock hygiene: the lock table above is only meaningful if what is acquired is released. For the packages
	// whose methods run concurrently with the step (ircserver, api): every return releases what the function acquired, deferred
	// and plain releases match what is held, no re-acquisition through a callee
	for _, pkg := range []string{"ircserver", "api"} {
		var ms []*load.FuncInfo
		for _, fi := range c.P.FuncsIn(pkg) {
			if fi.Body() != nil && fi.Obj != nil {
				ms = append(ms, fi)
			}
		}
		c.lockHygiene("C20.Q5", ms, "the next writer (the state machine applying an entry) blocks forever", "after which the state machine and every request block forever")
	}
	r.Floor("C20.Q5", 40)
	// ---------- Q4 lock order (observation)
	order := map[string]bool{}
	for _, fi := range fns {
		info := fi.Info()
		g := graphs[fi]
		lf := flows[fi]
		for _, v := range g.Nodes() {
			es, ok := v.Node.(*ast.ExprStmt)
			if !ok {
				continue
			}
			call, ok := es.X.(*ast.CallExpr)
			if !ok {
				continue
			}
			op := lockOpOf(info, call)
			if op == nil || (op.op != "Lock" && op.op != "RLock") {
				continue
			}
			for held := range lf.may[v.ID] {
				if held != op.lock {
					order[held+" -> "+op.lock] = true
				}
			}
		}
	}
	var edges []string
	for e := range order {
		edges = append(edges, e)
	}
	sort.Strings(edges)
	r.Extra["lock_order_edges"] = edges
	for _, e := range edges {
		parts := strings.Split(e, " -> ")
		if order[parts[1]+" -> "+parts[0]] && parts[0] < parts[1] {
			r.Observe("C20.Q4", "module", "lock order inversion "+parts[0]+" <-> "+parts[1], "-", "both acquisition orders occur (possible deadlock; outside this property's statement, reported only)")
		}
	}
}

func markWrite(info *types.Info, l ast.Expr, writes map[*ast.SelectorExpr]bool) {
	for {
		switch x := ast.Unparen(l).(type) {
		case *ast.IndexExpr:
			l = x.X
			continue
		case *ast.StarExpr:
			l = x.X
			continue
		case *ast.SelectorExpr:
			if astx.FieldSel(info, x) != nil {
				writes[x] = true
			}
			return
		}
		return
	}
}

func mutatorNames(m map[*load.FuncInfo]bool, max int) []string {
	var out []string
	for fi := range m {
		out = append(out, shortName(fi))
	}
	sort.Strings(out)
	if len(out) > max {
		out = append(out[:max], "…")
	}
	return out
}

// freshLocal: recv's base identifier is a local of fi that is only ever assigned from a constructor call or a composite
// literal, and has not been published (passed to a call, stored in a field/global, returned) before `at`.
func (c *Ctx) freshLocal(fi *load.FuncInfo, recv ast.Expr, at ast.Node) bool {
	info := fi.Info()
	b := astx.BaseIdent(recv)
	if b == nil {
		return false
	}
	obj := astx.Obj(info, b)
	v, ok := obj.(*types.Var)
	if !ok || v.Pkg() == nil || v.Parent() == v.Pkg().Scope() {
		return false
	}
	// not a parameter or receiver
	if fi.Decl != nil {
		if fi.Decl.Recv != nil {
			for _, fld := range fi.Decl.Recv.List {
				for _, nm := range fld.Names {
					if info.Defs[nm] == obj {
						return false
					}
				}
			}
		}
	}
	for _, fld := range fi.FuncType().Params.List {
		for _, nm := range fld.Names {
			if info.Defs[nm] == obj {
				return false
			}
		}
	}
	defs := defsOf(info, fi.Node(), obj)
	if len(defs) == 0 {
		return false
	}
	for _, d := range defs {
		if d == nil {
			continue // zero value declaration
		}
		x := ast.Unparen(d)
		if u, ok := x.(*ast.UnaryExpr); ok && u.Op == token.AND {
			x = ast.Unparen(u.X)
		}
		switch y := x.(type) {
		case *ast.CompositeLit:
		case *ast.CallExpr:
			fn := astx.Callee(info, y)
			if fn == nil || !strings.HasPrefix(fname(fn), "New") {
				return false
			}
		default:
			return false
		}
	}
	// published before `at`?
	published := false
	ast.Inspect(fi.Body(), func(n ast.Node) bool {
		if n == nil || n.Pos() >= at.Pos() {
			return true
		}
		switch x := n.(type) {
		case *ast.AssignStmt:
			for i, rhs := range x.Rhs {
				if id, ok := ast.Unparen(rhs).(*ast.Ident); ok && astx.Obj(info, id) == obj && i < len(x.Lhs) {
					if _, isLocal := ast.Unparen(x.Lhs[i]).(*ast.Ident); !isLocal {
						published = true
					} else if lv, ok := astx.Obj(info, x.Lhs[i].(*ast.Ident)).(*types.Var); ok && lv.Pkg() != nil && lv.Parent() == lv.Pkg().Scope() {
						published = true
					}
				}
			}
		case *ast.CallExpr:
			for _, a := range x.Args {
				if id, ok := ast.Unparen(a).(*ast.Ident); ok && astx.Obj(info, id) == obj && x.End() < at.Pos() {
					published = true
				}
			}
		}
		return true
	})
	return !published
}
