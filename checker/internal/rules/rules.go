// Package rules holds one file per property. Every rule enumerates instances
// from /repo's resolved program, discharges each by an enumerated
// justification, and records the rest as violations (see DESIGN.md section 1).
package rules

import (
	"go/ast"
	"go/types"
	"sort"

	"verif/checker/internal/cfgx"
	"verif/checker/internal/load"
	"verif/checker/internal/report"
)

// Ctx is what a rule set gets.
type Ctx struct {
	P    *load.Program
	Tier string
	R    *report.Result

	graphs map[ast.Node]*cfgx.Graph
	flows  map[*load.FuncInfo]*fieldFlow
	ircF   *ircFacts
}

// alsoRuns lists, per property, rule sets of other properties whose obligations are necessary conditions of it too.
var alsoRuns = map[string][]string{
	"C05": {"C02", "C09"},        // acknowledged entries survive snapshots / the store honours its contract
	"C07": {"C09", "C10", "C02"}, // the marked entry lands in a store that honours its contract; the duplicate-detection marker still advances for a skipped entry (C10.U3); every entry, marked or not, is re-filed in the irclog before it is applied or skipped, so that compaction and restore see the mark (C02.N3/N1)
	"C16": {"C03"},               // "every replica uses the same configuration" includes replicas that load it from a snapshot: the Config record must round-trip (C03.K*)
	"C02": {"C03"},               // folding relies on complete state serialization
	"C11": {"C17"},               // ended sessions must leave the session table, otherwise their secret keeps working
	"C09": {"C18"},               // entries must be encoded/decoded field by field without loss (C09's L5 is C18.F2)
	"C06": {"C14"},               // the state invariants I1-I3 that justify look-ups in C06.G3 are preserved iff C14's pairing rules hold
	"C12": {"C14"},               // recipient sets are computed from the membership relations whose pairing C14 checks
	"C10": {"C07"},               // the tombstone written for a message of death must keep the client message id
}

// Rule set registry: property id -> function.
var registry = map[string]func(*Ctx){}

func register(id string, f func(*Ctx)) { registry[id] = f }

// Properties lists the registered property ids.
func Properties() []string {
	var ids []string
	for id := range registry {
		ids = append(ids, id)
	}
	sort.Strings(ids)
	return ids
}

// Run executes the rule set of one property.
func Run(id string, p *load.Program, tier string) *report.Result {
	f := registry[id]
	if f == nil {
		return nil
	}
	computeAliases(p)
	fieldCanon = p.FieldName
	usesLookup = func(id *ast.Ident) types.Object {
		for _, pkg := range p.Pkgs {
			if o := pkg.TypesInfo.Uses[id]; o != nil {
				return o
			}
		}
		return nil
	}
	c := &Ctx{P: p, Tier: tier, R: report.NewResult(id), graphs: map[ast.Node]*cfgx.Graph{}}
	f(c)
	// rule sets of other properties that state necessary conditions of this one (obligations appear as <id>/<rule>)
	for _, dep := range alsoRuns[id] {
		if g := registry[dep]; g != nil {
			expl, rules := c.R.Explanation, c.R.Rules
			g(c)
			c.R.Explanation = expl + " Additionally runs the rule set of " + dep + " (its obligations are necessary conditions of this property as well; they appear as " + id + "/" + dep + ".*)."
			c.R.Rules = append(rules, dep+".* (borrowed)")
		}
	}
	return c.R
}

// Graph returns the cached statement-level CFG of a declared function.
func (c *Ctx) Graph(fi *load.FuncInfo) *cfgx.Graph {
	if g, ok := c.graphs[fi.Node()]; ok {
		return g
	}
	g := cfgx.New(fi.Name(), fi.Body(), fi.Pkg.TypesInfo)
	c.graphs[fi.Node()] = g
	return g
}

// LitGraph returns the CFG of a function literal.
func (c *Ctx) LitGraph(name string, lit *ast.FuncLit, info *types.Info) *cfgx.Graph {
	if g, ok := c.graphs[lit]; ok {
		return g
	}
	g := cfgx.New(name, lit.Body, info)
	c.graphs[lit] = g
	return g
}

// MustFunc resolves an anchor function or marks the check broken.
func (c *Ctx) MustFunc(name string) *load.FuncInfo {
	fi := c.P.Func(name)
	if fi == nil {
		c.R.Break("anchor function %s not found in /repo", name)
	}
	return fi
}

type cfgxVertex = cfgx.Vertex
type factT = cfgx.Fact
