// Package rules holds one file per property. Every rule enumerates instances
// from /repo's resolved program, discharges each by an enumerated
// justification, and records the rest as violations (see DESIGN.md section 1).
package rules

import (
	"go/ast"
	"go/types"
	"sort"
	"strings"

	"verif/checker/internal/cfgx"
	"verif/checker/internal/load"
	"verif/checker/internal/report"
)

// Ctx is what a rule set gets.
type Ctx struct {
	P    *load.Program
	Tier string
	R    *report.Result

	graphs map[ast.Node]*cfgx.Graph
	flows  map[*load.FuncInfo]*fieldFlow
	ircF   *ircFacts
	tables map[*types.Var][]*load.FuncInfo
}

// borrow names a rule set of another property whose obligations are necessary conditions of the borrowing property too,
// optionally narrowed to some of its rules (prefixes after "Cnn."), to obligations whose function starts with funcPrefix, or
// whose key contains keyHas. Narrowing matters: a borrowed obligation that is *not* necessary for the borrower would make
// the borrower's check fire on a tree where its own property holds.
type borrow struct {
	prop       string
	rules      []string
	funcPrefix string
	keyHas     string   // the obligation's function + construct contains this …
	keyHasAny  []string // … or one of these
}

// alsoRuns lists, per property, what it borrows (explicitly; not transitive).
var alsoRuns = map[string][]borrow{
	// folding and restore rely on complete state serialization and on canonical map keys in the loaded state
	// … the log copy is compacted with DeleteRange over an inclusive range (C09.L4) and its entries round-trip (C18.F1-F3)
	// … and the horizon follows the installed configuration (C16.V3)
	"C02": {{prop: "C03"}, {prop: "C14", rules: []string{"M6"}}, {prop: "C09", rules: []string{"L4"}}, {prop: "C18", rules: []string{"F1", "F2", "F3"}}, {prop: "C16", rules: []string{"V3"}},
		// what compaction deletes from the output stream is gone on the compacting node as on a node restored from the
		// snapshot: the deleted batch leaves the cache too (C08.S3), else Get / GetNext keep serving it here and nowhere else
		{prop: "C08", rules: []string{"S3"}, keyHas: "Delete of batch"},
		// the fold of Snapshot applies an entry through the same function as Apply, without an output stream: a session the
		// entry ended must leave the table there as well (C17.Y4), else the snapshot holds sessions no replica has
		{prop: "C17", rules: []string{"Y4"}, keyHas: "MaybeDeleteSession(msg.Session) after ProcessMessage"}},
	// … and hands back usable objects: every map a handler assigns into is non-nil after a load (C06.G5)
	"C03": {{prop: "C13", rules: []string{"E6"}, keyHas: "ending another session"}, {prop: "C14", rules: []string{"M6"}}, {prop: "C02", rules: []string{"N1"}, keyHas: "live global"}, {prop: "C06", rules: []string{"G5"}},
		// the state that is serialized is folded from decoded log entries: an entry that does not decode is fatal, not an empty message (which reads as a CreateSession)
		{prop: "C18", rules: []string{"F6"}, funcPrefix: "robust.NewMessageFromBytes"},
		// the serialized state reaches a fresh instance through the snapshot stream: a record is written to the sink once (C02.N7b)
		{prop: "C02", rules: []string{"N7"}, keyHas: "is not repeated"}},
	// acknowledged entries survive snapshots (C02, C03), the store honours its contract (C09 + its entry codec), and
	// "delivers exactly once" includes the resume protocol (C04)
	// the resume protocol relies on Get/GetNext honouring their contract (C08); a message's reply number is its position in
	// the batch (C01.R4); nodes that restored from a snapshot file the same outputs under the same ids (C18.F1 default id, C02.N4)
	// "… to different nodes holding the same log": what a node delivers for an entry must not depend on the node (C01: map
	// order, clocks, ambient state, id derivation)
	"C04": {{prop: "C01", rules: []string{"R1", "R2", "R3", "R4"}}, {prop: "C08"}, {prop: "C01", rules: []string{"R4"}}, {prop: "C18", rules: []string{"F1"}, keyHas: "default id"}, {prop: "C02", rules: []string{"N4"}},
		// a resuming client that is told 404 for a session the node merely has not seen yet gives the session up together with
		// everything it has not fetched: the two look-up errors must reach the comparison unwrapped (C17.Y2)
		{prop: "C17", rules: []string{"Y2"}, keyHas: "arrives unwrapped"},
		// a node that cannot write an entry's output stops; it does not go on serving a stream with a hole (C02.N9, fail-stop)
		{prop: "C02", rules: []string{"N9"}, keyHas: "sendMessages"}},
	// … and a POST is acknowledged without being proposed only where the replicated marker shows it was applied (C10.U1c)
	"C05": {{prop: "C02"}, {prop: "C03"}, {prop: "C09"}, {prop: "C18"}, {prop: "C04"}, {prop: "C08"}, {prop: "C14", rules: []string{"M6"}},
		// "exactly once": every applied client line records its id as the duplicate marker, a keep-alive included
		{prop: "C10", rules: []string{"U3"}, keyHas: "success return passes the marker write"},
		{prop: "C10", rules: []string{"U1"}, keyHasAny: []string{"success without proposing", "proposal carries the tested ClientMessageId"}},
		// "exactly once": the retry of a POST whose acknowledgement was lost is recognised only if the proposal carries the
		// id the duplicate test compared. "after killing and restarting any node": a node must come up again — the entry
		// that made it panic is marked only if the deferred function calls recover() itself (C07.D1)
		{prop: "C07", rules: []string{"D1"}, keyHas: "recover()"},
		// … and a node that has not applied the session yet says "not yet seen" (retry), never "no such session" (give up)
		{prop: "C17", rules: []string{"Y2"}}},
	// the state invariants that justify look-ups in C06.G3 are preserved iff C14's pairing rules hold
	// … and sessions ended by somebody else leave the session table (C17.Y4), else their next line finds no nickname entry
	// … and a session that ProcessMessage itself has just ended (ban, registration time-out) does not get its command run
	// (C17.Y6): the handlers assume a session that is in the nickname index and in its channels' member lists
	"C06": {{prop: "C14"}, {prop: "C17", rules: []string{"Y4"}}, {prop: "C17", rules: []string{"Y6"}, keyHas: "not dispatched"},
		// a failed Add stops the node that applies the entry — every node: Add must not fail for what a client can send (C08.S10)
		{prop: "C08", rules: []string{"S10"}, keyHas: "fails only when"},
		// applyRobustMessage takes UpdateLastClientMessageID's nil for "the session exists" before it calls ProcessMessage,
		// which dereferences the session: a nil that did not pass the write to the found session is not that proof (C10.U3)
		{prop: "C10", rules: []string{"U3"}, keyHas: "success return passes the marker write"}},
	// the marked entry lands in a store that honours its contract (C09, F2/F3); the duplicate-detection marker advances for a
	// skipped entry (C10.U3); every entry, marked or not, is re-filed before it is applied or skipped and is folded by
	// compaction, and restore rebuilds from it (C02.N1/N3/N4/N5); the marker and everything else survives a snapshot (C03)
	"C07": {{prop: "C09"}, {prop: "C18", rules: []string{"F1", "F2", "F3"}}, {prop: "C10", rules: []string{"U3"}}, {prop: "C10", rules: []string{"U2"}, keyHas: "message of death"}, {prop: "C02", rules: []string{"N1", "N3", "N4", "N5", "N7", "N8"}}, {prop: "C03"},
		// the skip of a marked entry calls UpdateLastClientMessageID outside any recover: it must not panic on the line that
		// made the first attempt panic (C06.G2 there)
		{prop: "C06", rules: []string{"G2"}, funcPrefix: "ircserver.(*IRCServer).UpdateLastClientMessageID"}},
	// "under every interleaving": the lock discipline of the output stream (C20 restricted to package outputstream)
	// … and "returns exactly what was added": the batch codec is symmetric (C18.F4)
	// … and readers always call the current stream (C04.P7)
	"C08": {{prop: "C20", funcPrefix: "outputstream."}, {prop: "C18", rules: []string{"F4"}}, {prop: "C04", rules: []string{"P7"}}},
	// entries are encoded/decoded field by field without loss
	// … and the store's methods run concurrently (raft's goroutines, the status pages): its lock discipline (C20 restricted to
	// package raftstore)
	"C09": {{prop: "C18", rules: []string{"F1", "F2", "F3"}}, {prop: "C20", funcPrefix: "raftstore."}},
	// the tombstone written for a message of death keeps the client message id and the same slot; compaction folds it; the
	// marker is part of the snapshot
	"C10": {{prop: "C07", rules: []string{"D1", "D2", "D3", "D5"}}, {prop: "C02", rules: []string{"N1"}}, {prop: "C03", keyHas: "lastClientMessageId"},
		{prop: "C18", rules: []string{"F1", "F2"}, keyHas: "ClientMessageId"},
		// one POST is one proposal: the handler reports success / failure as raft did and proposes once (C05.A2)
		{prop: "C05", rules: []string{"A2", "A5"}, funcPrefix: "api.(*HTTP).applyMessageWait"},
		// the marker is rebuilt by replaying the log: every record of a snapshot is applied (a skipped message of death still
		// advances it: C02.N5b), and an entry decoded from stored JSON still carries its ClientMessageId (C18.F7b)
		{prop: "C02", rules: []string{"N5"}, keyHas: "every record that is not the state record"},
		{prop: "C18", rules: []string{"F7"}, keyHas: "ClientMessageId"}},
	// instances must not share mutable package-level state: a configuration is decoded into a fresh value (C16.V3)
	// … and an instance that raft created from a snapshot and then fed the remaining entries is one of the instances the
	// property quantifies over: whatever influences later output must be in the snapshot and come back unchanged (C03)
	// … and the loops that take the first match in a map of sessions are order-independent only because nicknames are
	// unique: only free nicknames enter the index (C14.M4)
	"C01": {{prop: "C16", rules: []string{"V3"}, keyHas: "fresh configuration value"}, {prop: "C03"}, {prop: "C14", rules: []string{"M4"}},
		// an instance started from a snapshot is one of the instances quantified over: the snapshot state is the fold of the
		// log into a server made for that snapshot (C02.N1)
		{prop: "C02", rules: []string{"N1"}, keyHas: "folds into a fresh server"}},
	// ended sessions must leave the session table, otherwise their secret keeps working
	// … and the secret survives a snapshot unchanged (C03 obligations about the auth field)
	"C11": {{prop: "C13", rules: []string{"E6"}, keyHas: "ending another session"}, {prop: "C17", rules: []string{"Y1", "Y2", "Y3", "Y4"}}, {prop: "C03", keyHasAny: []string{".auth", ".Auth"}},
		// a node that installs a snapshot starts from a fresh server: a session deleted in the part of the log it never saw must not keep its secret
		{prop: "C02", rules: []string{"N4"}, keyHas: "fresh IRC server"}},
	// recipient sets are computed from the membership relations whose pairing C14 checks
	// … and from the nickname index, which a restore must rebuild for every session with a nickname (C03.K4)
	// … and nothing but the closing line reaches a session after it ended (C17.Y5)
	// … and no client can inject a second line with a prefix of its choosing (C15.W2)
	// … and the identity and membership data survive a snapshot (C03 obligations about those fields)
	"C12": {{prop: "C13", rules: []string{"E6"}, keyHas: "ending another session"}, {prop: "C17", rules: []string{"Y4"}}, {prop: "C14"}, {prop: "C03", rules: []string{"K4"}}, {prop: "C17", rules: []string{"Y5"}}, {prop: "C15", rules: []string{"W2"}},
		{prop: "C03", keyHasAny: []string{"Session.Nick", "Session.Username", "Session.Realname", "ircPrefix", "IrcPrefix", "Session.Channels", "channel.nicks", "Channel.Nicks", "Session.modes", "Session.AwayMsg", "identifier literal"}},
		// who is on a channel after a restore is what the replayed entries say: replaying does not stop at an entry that was
		// refused when it was first applied (C02.N5b)
		{prop: "C02", rules: []string{"N5"}, keyHas: "result of replaying"}},
	// operator status lives in per-member arrays: a restore that shares one array between members hands out operator status
	// … and privileges must survive a snapshot: operator flag, channel settings, member status, invitations, services links
	"C13": {{prop: "C14", rules: []string{"M1"}, keyHas: "fresh status array"},
		{prop: "C03", keyHasAny: []string{".Operator", ".Server", ".modes", ".Modes", ".bans", ".Bans", ".key", ".Key", ".invitedTo", ".InvitedTo", "channel.nicks", ".Nicks", ".Pass", "SolvedCaptcha", "BanPattern", "banPattern"}},
		{prop: "C14", rules: []string{"M6"}}, {prop: "C14", rules: []string{"M1"}, keyHas: "invitations"},
		// "a configured name/password": revoking a credential takes effect only if the update the API accepted is applied by
		// every replica — the parser must not be stricter than the API's check (C16.V1b)
		{prop: "C16", rules: []string{"V1"}, keyHas: "fails only when"}},
	// ended sessions leave every relation and the session table (C17.Y4)
	// … and a restore rebuilds the derived indexes consistently (C03.K4/K4b)
	"C14": {{prop: "C17", rules: []string{"Y4"}}, {prop: "C03", rules: []string{"K4"}}, {prop: "C03", keyHasAny: []string{"identifier literal"}},
		{prop: "C13", rules: []string{"E6"}, keyHas: "ending another session"},
		// membership is consistent after a restore only if every session was saved with its own channel list (C03.K11)
		{prop: "C03", rules: []string{"K11"}}},
	// replicas that load the configuration from a snapshot must get the same one
	// … and the ban table must be a usable map after every way of installing a configuration (C06.G5), else the next
	// GLINE kills the replica that restored and the others keep the ban
	// … and a Config entry keeps its revision in every log encoding (C18.F1/F2 about Revision)
	// … and a GLINE that is refused (481) changes nothing: the ban table is written only behind the operator test (C13.E6)
	"C16": {{prop: "C13", rules: []string{"E6"}, keyHas: "Config.Banned"}, {prop: "C03", keyHas: "onfig"}, {prop: "C06", rules: []string{"G5"}, keyHas: "Banned"}, {prop: "C18", rules: []string{"F1", "F2"}, keyHas: "Revision"},
		// a replica that cannot store a committed Config entry stops (and replays it after the restart); it does not count it as applied and keep the old configuration
		{prop: "C02", rules: []string{"N3"}, keyHas: "store error is fatal"},
		// "a rejected update changes nothing": the handler reports failure only when the proposal did fail (C05.A2, A5)
		{prop: "C05", rules: []string{"A2", "A5"}, funcPrefix: "api.(*HTTP).applyMessageWait"},
		// the configuration in force is the same on a replica that folded its log: compaction folds every entry, Config
		// entries included, in log order (C02.N1 "one fold call"); whether a committed update takes effect does not depend on
		// the applying node's clock (C01.R2 in applyRobustMessage); and what the configuration allows is asked of the
		// configuration in force, not of a memo of earlier answers (C11.H6)
		{prop: "C02", rules: []string{"N1"}, keyHas: "one fold call"},
		{prop: "C01", rules: []string{"R2"}, funcPrefix: "main.(*FSM).applyRobustMessage"},
		{prop: "C11", rules: []string{"H6"}}},
	// a relayed line starts with a well-formed prefix: the cached prefix is refreshed whenever the nickname changes (C12.T4)
	"C15": {{prop: "C12", rules: []string{"T4"}}, {prop: "C03", keyHasAny: []string{"ircPrefix", "IrcPrefix"}}},
	// sessions (and the expiration they are measured against) survive a snapshot: every session is restored (C03.K7), ids keep
	// both components (K1c), the configured expiration round-trips
	// "decoded identically by all readers (… restore …)": the snapshot container written by Persist is the one decodeProtobuf
	// reads (C02.N5)
	// the raft log store is a writer/reader pair too: what StoreLogs / StoreLogProto write (every entry handed over, under
	// its own index key, as 'p' + protobuf or bare JSON: C09.L1, L2, L7) is what GetLog and the bulk iterator read back
	"C18": {{prop: "C02", rules: []string{"N5"}}, {prop: "C09", rules: []string{"L1", "L2", "L7"}, funcPrefix: "raftstore.(*LevelDBStore).Store"},
		// the batch codec stores the keys of the recipient set: the set holds no false entries
		{prop: "C12", rules: []string{"T1"}, keyHas: "marks recipients with true"},
		// "the id defaults to the raft index only when absent": a proposal object is not re-used (C05.A7b)
		{prop: "C05", rules: []string{"A7"}, keyHas: "fresh message"},
		// "decoded identically by all readers": readers run concurrently (raft's replication goroutines, the status page)
		// under the read lock — the space a reader decodes into is its own (C20.Q1 in the readers of the store)
		{prop: "C20", rules: []string{"Q1"}, funcPrefix: "raftstore.(*LevelDBStore).Get"}},
	// … and a session that somebody else ends is removed from the table only by the sweep, which runs for operators and
	// services links: ending another session is therefore tied to that privilege (C13.E6), else the ended session lingers
	"C17": {{prop: "C03", rules: []string{"K7"}}, {prop: "C03", keyHasAny: []string{"SessionExpiration", "LastActivity", "identifier literal", "encodes the time it was given"}},
		// the expiry sweep compares the replicated last activity: the field is written by the step only, not by whatever node happens to receive a POST
		{prop: "C01", rules: []string{"R3"}, keyHas: "LastActivity"},
		// the sweep runs with the configured expiration only if the configuration the API accepted is applied (C16.V1b)
		{prop: "C16", rules: []string{"V1"}, keyHas: "fails only when"},
		{prop: "C13", rules: []string{"E6"}, keyHas: "ending another session"},
		// … and a live session is never answered "No such session": the gates hand on the IRC server's verdict (C11.H1e)
		{prop: "C11", rules: []string{"H1"}, keyHas: "does not decide by itself"}},
	// a configuration value that shares a map with a package-level default is shared by every server that parsed one: the
	// live server and the temporary one Snapshot folds into write it under different locks (C16.V3)
	"C20": {{prop: "C16", rules: []string{"V3"}, keyHas: "fresh configuration value"}},
}

// Rule set registry: property id -> function.
var registry = map[string]func(*Ctx){}

func register(id string, f func(*Ctx)) { registry[id] = f }

// Properties lists the registered property ids.
func Properties() []string {
	var ids []string
	for id := range registry {
		ids = append(ids, id)
	}
	sort.Strings(ids)
	return ids
}

// Run executes the rule set of one property.
func Run(id string, p *load.Program, tier string) *report.Result {
	f := registry[id]
	if f == nil {
		return nil
	}
	computeAliases(p)
	fieldCanon = p.FieldName
	fieldOwnerCanon = p.FieldOwner
	usesLookup = func(id *ast.Ident) types.Object {
		for _, pkg := range p.Pkgs {
			if o := pkg.TypesInfo.Uses[id]; o != nil {
				return o
			}
		}
		return nil
	}
	c := &Ctx{P: p, Tier: tier, R: report.NewResult(id), graphs: map[ast.Node]*cfgx.Graph{}}
	f(c)
	// rule sets of other properties that state necessary conditions of this one (obligations appear as <id>/<rule>)
	for _, bw := range alsoRuns[id] {
		g := registry[bw.prop]
		if g == nil {
			continue
		}
		bw := bw
		expl, rules := c.R.Explanation, c.R.Rules
		scoped := len(bw.rules) > 0 || bw.funcPrefix != "" || bw.keyHas != "" || len(bw.keyHasAny) > 0
		if scoped {
			c.R.Filter = func(o *report.Obligation) bool {
				if len(bw.rules) > 0 {
					okRule := false
					for _, rl := range bw.rules {
						if strings.HasPrefix(o.Rule, bw.prop+"."+rl) {
							okRule = true
						}
					}
					if !okRule {
						return false
					}
				}
				if bw.funcPrefix != "" && !strings.HasPrefix(o.Func, bw.funcPrefix) {
					return false
				}
				if bw.keyHas != "" && !strings.Contains(o.Func+" "+o.Construct, bw.keyHas) {
					return false
				}
				if len(bw.keyHasAny) > 0 {
					hit := false
					for _, k := range bw.keyHasAny {
						if strings.Contains(o.Construct, k) {
							hit = true
						}
					}
					if !hit {
						return false
					}
				}
				return true
			}
		}
		nBroken := len(c.R.Broken)
		g(c)
		c.R.Filter = nil
		_ = nBroken
		what := bw.prop
		if len(bw.rules) > 0 {
			what += "." + strings.Join(bw.rules, "/")
		}
		if bw.funcPrefix != "" {
			what += " (functions " + bw.funcPrefix + "*)"
		}
		if bw.keyHas != "" {
			what += " (obligations about *" + bw.keyHas + "*)"
		}
		if len(bw.keyHasAny) > 0 {
			what += " (obligations about " + strings.Join(bw.keyHasAny, ", ") + ")"
		}
		c.R.Explanation = expl + " Additionally runs " + what + " (necessary conditions of this property as well; reported as " + id + "/" + bw.prop + ".*)."
		c.R.Rules = append(rules, what+" (borrowed)")
	}
	return c.R
}

// Graph returns the cached statement-level CFG of a declared function.
func (c *Ctx) Graph(fi *load.FuncInfo) *cfgx.Graph {
	if g, ok := c.graphs[fi.Node()]; ok {
		return g
	}
	g := cfgx.New(fi.Name(), fi.Body(), fi.Pkg.TypesInfo)
	c.graphs[fi.Node()] = g
	return g
}

// LitGraph returns the CFG of a function literal.
func (c *Ctx) LitGraph(name string, lit *ast.FuncLit, info *types.Info) *cfgx.Graph {
	if g, ok := c.graphs[lit]; ok {
		return g
	}
	g := cfgx.New(name, lit.Body, info)
	c.graphs[lit] = g
	return g
}

// MustFunc resolves an anchor function or marks the check broken.
func (c *Ctx) MustFunc(name string) *load.FuncInfo {
	fi := c.P.Func(name)
	if fi == nil {
		c.R.Break("anchor function %s not found in /repo", name)
	}
	return fi
}

type cfgxVertex = cfgx.Vertex
type factT = cfgx.Fact
