// Package rules holds one file per property. Every rule enumerates instances
// from /repo's resolved program, discharges each by an enumerated
// justification, and records the rest as violations (see DESIGN.md section 1).
package rules

import (
	"go/ast"
	"go/types"
	"sort"

	"verif/checker/internal/cfgx"
	"verif/checker/internal/load"
	"verif/checker/internal/report"
)

// Ctx is what a rule set gets.
type Ctx struct {
	P    *load.Program
	Tier string
	R    *report.Result

	graphs map[ast.Node]*cfgx.Graph
	flows  map[*load.FuncInfo]*fieldFlow
	ircF   *ircFacts
}

// Rule set registry: property id -> function.
var registry = map[string]func(*Ctx){}

func register(id string, f func(*Ctx)) { registry[id] = f }

// Properties lists the registered property ids.
func Properties() []string {
	var ids []string
	for id := range registry {
		ids = append(ids, id)
	}
	sort.Strings(ids)
	return ids
}

// Run executes the rule set of one property.
func Run(id string, p *load.Program, tier string) *report.Result {
	f := registry[id]
	if f == nil {
		return nil
	}
	c := &Ctx{P: p, Tier: tier, R: report.NewResult(id), graphs: map[ast.Node]*cfgx.Graph{}}
	f(c)
	return c.R
}

// Graph returns the cached statement-level CFG of a declared function.
func (c *Ctx) Graph(fi *load.FuncInfo) *cfgx.Graph {
	if g, ok := c.graphs[fi.Node()]; ok {
		return g
	}
	g := cfgx.New(fi.Name(), fi.Body(), fi.Pkg.TypesInfo)
	c.graphs[fi.Node()] = g
	return g
}

// LitGraph returns the CFG of a function literal.
func (c *Ctx) LitGraph(name string, lit *ast.FuncLit, info *types.Info) *cfgx.Graph {
	if g, ok := c.graphs[lit]; ok {
		return g
	}
	g := cfgx.New(name, lit.Body, info)
	c.graphs[lit] = g
	return g
}

// MustFunc resolves an anchor function or marks the check broken.
func (c *Ctx) MustFunc(name string) *load.FuncInfo {
	fi := c.P.Func(name)
	if fi == nil {
		c.R.Break("anchor function %s not found in /repo", name)
	}
	return fi
}

type cfgxVertex = cfgx.Vertex
type factT = cfgx.Fact
