package rules

import (
	"go/ast"
	"go/constant"
	"go/token"
	"go/types"
	"strings"

	"verif/checker/internal/astx"
	"verif/checker/internal/cfgx"
	"verif/checker/internal/flowx"
	"verif/checker/internal/load"
)

func init() { register("C19", c19) }

func isTimeNow(info *types.Info, e ast.Expr) bool {
	call, ok := ast.Unparen(e).(*ast.CallExpr)
	if !ok {
		return false
	}
	fn := astx.Callee(info, call)
	return fn != nil && isFunc(fn, "time", "Now")
}

func c19(c *Ctx) {
	r := c.R
	r.Explanation = "Partial: the wiring and shape of the start-up time check. (Z1) every way main reaches raft.NewRaft on the non-bootstrapping branch passes a successful SynchronizedWithNetwork (or the explicit -disable_timesafeguard bypass), every way to joinMaster passes a successful SynchronizedWithMasterAndNetwork; (Z2) synchronizedWithNetwork returns nil only when timeInSync held or the flag is set; (Z3) unanswered peers are filtered out, and a failed measurement leaves its slot zero; (Z4) the refusing comparison is drift >= ElectionTimeout and raft's election/heartbeat/lease timeouts are that same constant; (Z5) the bound depends on all three measured instants, is the absolute local/remote difference plus the round trip (End-Start, added), and Start/End bracket the request. The arithmetic soundness of the bound for all delays is a numeric fact and is not decided."
	r.Rules = []string{"C19.Z1 check on every way in", "C19.Z2 only the flag bypasses", "C19.Z3 silent peers ignored", "C19.Z4 threshold identity", "C19.Z5 bound shape and dependence", "C19.Z6 error discipline"}

	mainFn := c.MustFunc("main.main")
	swn := c.MustFunc("timesafeguard.synchronizedWithNetwork")
	tis := c.MustFunc("timesafeguard.timeInSync")
	wcd := c.MustFunc("timesafeguard.(timeResult).worstCaseDrift")
	gst := c.MustFunc("timesafeguard.getServerTime")
	ct := c.MustFunc("timesafeguard.collectTime")
	if mainFn == nil || swn == nil || tis == nil || wcd == nil || gst == nil || ct == nil {
		return
	}
	r.Functions = 8
	disableObj := c.P.Pkg("timesafeguard").Types.Scope().Lookup("DisableTimesafeguard")
	etObj := c.P.Pkg("timesafeguard").Types.Scope().Lookup("ElectionTimeout")
	if disableObj == nil || etObj == nil {
		r.Break("timesafeguard.DisableTimesafeguard / ElectionTimeout not found")
		return
	}
	// isET: the expression names ElectionTimeout — the constant itself, or a constant of the package that is declared as
	// nothing but that name (`const maxDrift = ElectionTimeout`)
	isETObj := func(o types.Object) bool {
		if o == etObj {
			return true
		}
		cst, ok := o.(*types.Const)
		if !ok || cst.Pkg() == nil || cst.Pkg() != etObj.Pkg() {
			return false
		}
		found := false
		for _, f := range c.P.Pkg("timesafeguard").Syntax {
			ast.Inspect(f, func(n ast.Node) bool {
				vs, ok := n.(*ast.ValueSpec)
				if !ok {
					return true
				}
				for i, nm := range vs.Names {
					if c.P.Pkg("timesafeguard").TypesInfo.Defs[nm] == o && i < len(vs.Values) {
						if id, ok := ast.Unparen(vs.Values[i]).(*ast.Ident); ok && c.P.Pkg("timesafeguard").TypesInfo.Uses[id] == etObj {
							found = true
						}
					}
				}
				return true
			})
		}
		return found
	}
	isETExpr := func(info *types.Info, e ast.Expr) bool {
		switch x := ast.Unparen(e).(type) {
		case *ast.Ident:
			return info.Uses[x] != nil && isETObj(info.Uses[x])
		case *ast.SelectorExpr:
			return info.Uses[x.Sel] != nil && isETObj(info.Uses[x.Sel])
		}
		return false
	}
	isDisableFlag := func(info *types.Info, e ast.Expr) bool {
		st, ok := ast.Unparen(e).(*ast.StarExpr)
		if !ok {
			return false
		}
		switch x := ast.Unparen(st.X).(type) {
		case *ast.Ident:
			return info.Uses[x] == disableObj
		case *ast.SelectorExpr:
			return info.Uses[x.Sel] == disableObj
		}
		return false
	}

	// Z1
	{
		info := mainFn.Info()
		g := c.Graph(mainFn)
		isSWN := func(fn *types.Func, _ *ast.CallExpr) bool {
			return isFunc(fn, "timesafeguard", "SynchronizedWithNetwork")
		}
		isSWMN := func(fn *types.Func, _ *ast.CallExpr) bool {
			return isFunc(fn, "timesafeguard", "SynchronizedWithMasterAndNetwork")
		}
		// allowed edges
		allowed := map[*cfgx.Edge]string{}
		var bootObj types.Object
		for _, v := range g.V {
			for _, e := range v.Succ {
				if e.Cond == nil {
					continue
				}
				for _, f := range cfgx.ExpandCond(e.Cond, e.Val) {
					if f.Tag != nil {
						continue
					}
					// flag set
					if f.Val && isDisableFlag(info, f.Expr) {
						allowed[e] = "-disable_timesafeguard"
					}
					// bootstrapping
					if id, ok := ast.Unparen(f.Expr).(*ast.Ident); ok && f.Val {
						o := astx.Obj(info, id)
						if d := uniqueDef(info, mainFn.Node(), id); d != nil {
							if be, ok := ast.Unparen(d).(*ast.BinaryExpr); ok && be.Op == token.LOR && mentionsGlobal(info, be, "singleNode") && mentionsGlobal(info, be, "join") {
								allowed[e] = "bootstrapping (-singlenode / -join)"
								bootObj = o
							}
						}
					}
					// err == nil from SynchronizedWithNetwork
					if x, isNil, ok := nilCompare(info, f); ok && isNil {
						if id, ok := ast.Unparen(x).(*ast.Ident); ok {
							defs := defsOf(info, mainFn.Node(), astx.Obj(info, id))
							all := len(defs) > 0
							for _, d := range defs {
								call, ok := ast.Unparen(d).(*ast.CallExpr)
								if !ok {
									all = false
									break
								}
								if fn := astx.Callee(info, call); fn == nil || !isSWN(fn, call) {
									all = false
								}
							}
							if all {
								allowed[e] = "SynchronizedWithNetwork succeeded"
							}
						}
					}
				}
			}
		}
		_ = bootObj
		n := 0
		for _, call := range astx.Calls(mainFn.Body(), false) {
			fn := astx.Callee(info, call)
			if fn == nil || fn.Pkg() == nil || fn.Pkg().Path() != pathRaft || fname(fn) != "NewRaft" {
				continue
			}
			n++
			v := g.VertexOf(call)
			reach := g.Reach(g.Entry, nil, func(e *cfgx.Edge) bool { return allowed[e] != "" })
			r.Check(!reach[v], "C19.Z1", mainFn.Name(), "raft.NewRaft behind the time check", c.P.Pos(call.Pos()),
				"every path passes: bootstrapping, SynchronizedWithNetwork == nil, or -disable_timesafeguard",
				"a restarting node can start raft without a successful time check (a path to raft.NewRaft avoids SynchronizedWithNetwork's nil-error edge and the explicit bypass)")
		}
		r.Check(n > 0, "C19.Z1", mainFn.Name(), "raft.NewRaft found", c.P.Pos(mainFn.Node().Pos()), "found", "main does not call raft.NewRaft")
		for _, call := range callsIn(mainFn, func(fn *types.Func, _ *ast.CallExpr) bool { return isFunc(fn, "main", "joinMaster") }) {
			v := g.VertexOf(call)
			ok, why := c.errNilAfterCall(mainFn, g, v, isSWMN)
			r.Check(ok, "C19.Z1", mainFn.Name(), "joinMaster behind the time check", c.P.Pos(call.Pos()), why,
				"a node can join the network without SynchronizedWithMasterAndNetwork having succeeded")
		}
		// a failed check is fatal: the error edge of both calls leads to termination
		for _, call := range append(callsIn(mainFn, isSWN), callsIn(mainFn, isSWMN)...) {
			v := g.VertexOf(call)
			if v < 0 {
				continue
			}
			// from the call, paths on which err != nil must not reach NewRaft/joinMaster — covered above; here: result must be tested
			_, isAssign := g.V[v].Node.(*ast.AssignStmt)
			r.Check(isAssign, "C19.Z1", mainFn.Name(), "result of "+astx.Str(call.Fun)+" is tested", c.P.Pos(call.Pos()), "assigned and branched on", "the error of the time check is discarded")
		}
	}

	// noOffenders: the fact says len(X) == 0 for a local slice X that is appended to exactly under the refusing test, once per
	// measurement of the filtered slice
	noOffenders := func(info *types.Info, g *cfgx.Graph, fi *load.FuncInfo, f cfgx.Fact) bool {
		be, ok := ast.Unparen(f.Expr).(*ast.BinaryExpr)
		if !ok || f.Tag != nil {
			return false
		}
		lc, ok := ast.Unparen(be.X).(*ast.CallExpr)
		if !ok || astx.Builtin(info, lc) != "len" || len(lc.Args) != 1 {
			return false
		}
		zero, isC := astx.ConstInt(info, be.Y)
		if !isC || zero != 0 || !((be.Op == token.EQL && f.Val) || (be.Op == token.NEQ && !f.Val) || (be.Op == token.GTR && !f.Val)) {
			return false
		}
		xid, ok := ast.Unparen(lc.Args[0]).(*ast.Ident)
		if !ok {
			return false
		}
		xo := astx.Obj(info, xid)
		nApp := 0
		for _, v := range g.Nodes() {
			as, isAs := v.Node.(*ast.AssignStmt)
			if !isAs || len(as.Lhs) != 1 || len(as.Rhs) != 1 {
				continue
			}
			l, isID := as.Lhs[0].(*ast.Ident)
			if !isID || astx.Obj(info, l) != xo {
				continue
			}
			app, isCall := ast.Unparen(as.Rhs[0]).(*ast.CallExpr)
			if !isCall || astx.Builtin(info, app) != "append" {
				return false // assigned otherwise (reset, re-sliced): not a plain collection
			}
			nApp++
			// under the refusing test …
			var test ast.Expr
			for _, ft := range g.FactsAt(v.ID) {
				b2, ok := ast.Unparen(ft.Expr).(*ast.BinaryExpr)
				if !ok || ft.Tag != nil {
					continue
				}
				if cc, ok := ast.Unparen(b2.X).(*ast.CallExpr); ok {
					if fn := astx.Callee(info, cc); fn != nil && fname(fn) == "worstCaseDrift" && isETExpr(info, b2.Y) && ((b2.Op == token.GEQ && ft.Val) || (b2.Op == token.LSS && !ft.Val)) {
						test = ft.Expr
					}
				}
			}
			if test == nil {
				return false
			}
			// … which is the first statement of a loop over a local slice that only receives answered measurements
			var loop *ast.RangeStmt
			ast.Inspect(fi.Body(), func(n ast.Node) bool {
				if rs, ok := n.(*ast.RangeStmt); ok && rs.Body.Pos() <= as.Pos() && as.End() <= rs.Body.End() {
					loop = rs
				}
				return true
			})
			if loop == nil || len(loop.Body.List) == 0 {
				return false
			}
			ifs, ok := loop.Body.List[0].(*ast.IfStmt)
			if !ok || ifs.Init != nil || !(ifs.Cond.Pos() <= test.Pos() && test.End() <= ifs.Cond.End()) {
				return false
			}
			if _, isBin := ast.Unparen(ifs.Cond).(*ast.BinaryExpr); !isBin || ast.Unparen(ifs.Cond) != ast.Unparen(test) {
				return false
			}
			sid, ok := ast.Unparen(loop.X).(*ast.Ident)
			if !ok {
				return false
			}
			so := astx.Obj(info, sid)
			nS := 0
			for _, u := range g.Nodes() {
				a2, isAs := u.Node.(*ast.AssignStmt)
				if !isAs || len(a2.Lhs) != 1 || len(a2.Rhs) != 1 {
					continue
				}
				l2, isID := a2.Lhs[0].(*ast.Ident)
				if !isID || astx.Obj(info, l2) != so {
					continue
				}
				ap2, isCall := ast.Unparen(a2.Rhs[0]).(*ast.CallExpr)
				if !isCall || astx.Builtin(info, ap2) != "append" {
					return false
				}
				nS++
				answered := false
				for _, ft := range g.FactsAt(u.ID) {
					if ft.Tag == nil && !ft.Val {
						if cc, isC := ast.Unparen(ft.Expr).(*ast.CallExpr); isC {
							if fn := astx.Callee(info, cc); fn != nil && fname(fn) == "IsZero" {
								answered = true
							}
						}
					}
				}
				if !answered {
					return false
				}
			}
			if nS == 0 {
				return false
			}
		}
		return nApp > 0
	}
	// Z2
	{
		info := swn.Info()
		g := c.Graph(swn)
		for _, rv := range g.Returns() {
			rs := rv.Node.(*ast.ReturnStmt)
			if len(rs.Results) != 1 || !isNilIdent(info, rs.Results[0]) {
				continue
			}
			ok, why := false, ""
			for _, f := range g.FactsAt(rv.ID) {
				if f.Tag != nil || !f.Val {
					continue
				}
				if call, isCall := ast.Unparen(f.Expr).(*ast.CallExpr); isCall {
					if fn := astx.Callee(info, call); fn == tis.Obj {
						ok, why = true, "timeInSync(...) held"
					}
				}
				if isDisableFlag(info, f.Expr) {
					ok, why = true, "-disable_timesafeguard set"
				}
				// … or the list of offending measurements is empty: the same judgement spelled as "collect the offenders,
				// succeed if there are none" — the list gets an entry for every filtered measurement whose bound reaches the
				// election timeout (the test is the first thing the loop over the filtered slice does)
				if noOffenders(info, g, swn, f) {
					ok, why = true, "the list of measurements with worstCaseDrift() >= ElectionTimeout is empty"
				}
			}
			r.Check(ok, "C19.Z2", swn.Name(), "return nil", c.P.Pos(rs.Pos()), why,
				"synchronizedWithNetwork reports success on a path where neither timeInSync held nor the safeguard is disabled")
		}
		r.Floor("C19.Z2", 2)

		// Z2b: the bypass is the operator's explicit choice: the flag is off unless given, and nothing in the program sets it
		nDef := 0
		for _, f := range c.P.Pkg("timesafeguard").Syntax {
			for _, d := range f.Decls {
				gd, isGen := d.(*ast.GenDecl)
				if !isGen {
					continue
				}
				for _, sp := range gd.Specs {
					vs, isV := sp.(*ast.ValueSpec)
					if !isV {
						continue
					}
					for i, nm := range vs.Names {
						if c.P.Pkg("timesafeguard").TypesInfo.Defs[nm] != disableObj {
							continue
						}
						nDef++
						okDef := false
						if i < len(vs.Values) {
							if call, isCall := ast.Unparen(vs.Values[i]).(*ast.CallExpr); isCall && len(call.Args) >= 2 {
								if fn := astx.Callee(c.P.Pkg("timesafeguard").TypesInfo, call); fn != nil && fn.Pkg() != nil && fn.Pkg().Path() == "flag" && fn.Name() == "Bool" {
									if tv := c.P.Pkg("timesafeguard").TypesInfo.Types[call.Args[1]]; tv.Value != nil && tv.Value.Kind() == constant.Bool && !constant.BoolVal(tv.Value) {
										okDef = true
									}
								}
							}
						}
						r.Check(okDef, "C19.Z2", "timesafeguard.DisableTimesafeguard", "the safeguard is on unless the flag is given", c.P.Pos(nm.Pos()), "flag.Bool with the constant default false",
							"the default of -disable_timesafeguard is not the constant false: the safeguard can be off without the operator having asked for it on the command line")
					}
				}
			}
		}
		if nDef == 0 {
			r.Break("C19.Z2: declaration of DisableTimesafeguard not found")
		}
		for _, fi := range c.P.AllFuncs {
			if fi.Body() == nil {
				continue
			}
			fin := fi.Info()
			ast.Inspect(fi.Body(), func(n ast.Node) bool {
				as, isAs := n.(*ast.AssignStmt)
				if !isAs {
					return true
				}
				for _, l := range as.Lhs {
					set := isDisableFlag(fin, l)
					switch x := ast.Unparen(l).(type) {
					case *ast.Ident:
						set = set || fin.Uses[x] == disableObj
					case *ast.SelectorExpr:
						set = set || fin.Uses[x.Sel] == disableObj
					}
					if set {
						r.Fail("C19.Z2", fi.Name(), "the flag is set by the command line only", c.P.Pos(as.Pos()), "the program itself sets -disable_timesafeguard: the safeguard is bypassed without the operator's choice")
					}
				}
				return true
			})
		}

		// Z3: slice handed to timeInSync only receives non-zero results
		for _, call := range callsIn(swn, func(fn *types.Func, _ *ast.CallExpr) bool { return fn == tis.Obj }) {
			if len(call.Args) != 1 {
				continue
			}
			id, ok := ast.Unparen(call.Args[0]).(*ast.Ident)
			if !ok {
				r.Fail("C19.Z3", swn.Name(), "argument of timeInSync", c.P.Pos(call.Pos()), "timeInSync is not given the filtered slice variable")
				continue
			}
			obj := astx.Obj(info, id)
			param := false
			for _, fld := range swn.FuncType().Params.List {
				for _, nm := range fld.Names {
					if info.Defs[nm] == obj {
						param = true
					}
				}
			}
			r.Check(!param, "C19.Z3", swn.Name(), "timeInSync gets the filtered results", c.P.Pos(call.Pos()), "argument is a local slice, not the raw parameter",
				"timeInSync is given the unfiltered results: the zero time of a silent peer looks like a huge drift (or, negated, is trusted)")
			for _, v := range g.Nodes() {
				as, isAs := v.Node.(*ast.AssignStmt)
				if !isAs || len(as.Lhs) != 1 {
					continue
				}
				l, isID := as.Lhs[0].(*ast.Ident)
				if !isID || astx.Obj(info, l) != obj {
					continue
				}
				app, isCall := ast.Unparen(as.Rhs[0]).(*ast.CallExpr)
				if !isCall || astx.Builtin(info, app) != "append" {
					continue
				}
				okF := false
				for _, f := range g.FactsAt(v.ID) {
					if f.Tag == nil && !f.Val {
						if cc, isC := ast.Unparen(f.Expr).(*ast.CallExpr); isC {
							if fn := astx.Callee(info, cc); fn != nil && fname(fn) == "IsZero" {
								if se, ok := ast.Unparen(cc.Fun).(*ast.SelectorExpr); ok {
									if s2, ok := ast.Unparen(se.X).(*ast.SelectorExpr); ok && s2.Sel.Name == "Result" {
										okF = true
									}
								}
							}
						}
					}
				}
				r.Check(okF, "C19.Z3", swn.Name(), "append to the checked slice only for answered peers", c.P.Pos(as.Pos()), "dominated by !result.Result.IsZero()",
					"a measurement is added to the checked set without its Result having been tested non-zero")
			}
		}
		r.Floor("C19.Z3", 2)
	}
	// Z3e: an unanswered peer is skipped, the loop goes on: from the edge on which a measurement is found empty the next
	// iteration of the filtering loop is still reachable (a `break` would drop every later measurement)
	if swn != nil && swn.Body() != nil {
		info := swn.Info()
		g := c.Graph(swn)
		n := 0
		ast.Inspect(swn.Body(), func(nd ast.Node) bool {
			rs, ok := nd.(*ast.RangeStmt)
			if !ok {
				return true
			}
			// "the next iteration": the first statement of the body is reachable again
			head := -1
			if len(rs.Body.List) > 0 {
				head = g.VertexOf(rs.Body.List[0])
			}
			for _, v := range g.V {
				for _, e := range v.Succ {
					if e.Cond == nil || e.Tag != nil || !(rs.Body.Pos() <= e.Cond.Pos() && e.Cond.End() <= rs.Body.End()) {
						continue
					}
					empty := false
					for _, fct := range cfgx.ExpandCond(e.Cond, e.Val) {
						if cc, isC := ast.Unparen(fct.Expr).(*ast.CallExpr); isC && fct.Val {
							if fn := astx.Callee(info, cc); fn != nil && fname(fn) == "IsZero" {
								empty = true
							}
						}
					}
					if !empty {
						continue
					}
					n++
					r.Check(head >= 0 && (g.Reach(e.To, nil, nil)[head] || e.To == head), "C19.Z3", swn.Name(), "an unanswered peer does not end the filtering", c.P.Pos(e.Cond.Pos()), "the next iteration is reachable from the 'empty measurement' edge",
						"the loop that filters unanswered peers is left at the first empty measurement: every measurement after it (on the join path: the node being joined, which is appended last) is never compared with the tolerance")
				}
			}
			return true
		})
		r.Check(n >= 1, "C19.Z3", swn.Name(), "empty-measurement test found in the filtering loop", c.P.Pos(swn.Node().Pos()), itoa(n), "synchronizedWithNetwork no longer filters unanswered peers inside a loop")
	}
	// Z3f: collectTime waits for every measurement: wg.Add is executed by the spawning goroutine before `go` (an Add inside
	// the spawned function races with Wait, which can then return before anything was measured)
	if ct := c.P.Func("timesafeguard.collectTime"); ct != nil && ct.Body() != nil {
		info := ct.Info()
		g := c.Graph(ct)
		isWG := func(call *ast.CallExpr, name string) bool {
			fn := astx.Callee(info, call)
			return fn != nil && fn.FullName() == "(*sync.WaitGroup)."+name
		}
		nGo := 0
		for _, v := range g.Nodes() {
			gs, ok := v.Node.(*ast.GoStmt)
			if !ok {
				continue
			}
			nGo++
			okAdd := g.DominatedBy(v.ID, func(x *cfgx.Vertex) bool {
				if x.Node == nil {
					return false
				}
				if _, isGo := x.Node.(*ast.GoStmt); isGo {
					return false
				}
				for _, call := range astx.Calls(x.Node, false) {
					if isWG(call, "Add") {
						return true
					}
				}
				return false
			})
			_ = gs
			r.Check(okAdd, "C19.Z3", ct.Name(), "wg.Add precedes the goroutine", c.P.Pos(gs.Pos()), "a WaitGroup.Add in the spawning goroutine dominates `go`",
				"the WaitGroup counter is raised inside the spawned goroutine (or not at all): Wait can return before any peer was asked, the empty results look like unanswered peers and no clock is checked")
		}
		waits := 0
		for _, call := range astx.Calls(ct.Body(), false) {
			if isWG(call, "Wait") {
				waits++
			}
		}
		r.Check(nGo >= 1 && waits >= 1, "C19.Z3", ct.Name(), "measurements are awaited", c.P.Pos(ct.Node().Pos()), itoa(nGo)+" goroutine(s), "+itoa(waits)+" Wait", "collectTime does not wait for its measuring goroutines")
	}
	// Z3g: the peers that are asked are the peers that were given: in the exported entry points, what is appended to the
	// list handed to collectTime is the range variable of the loop over the input (not the node's own address)
	if ct := c.P.Func("timesafeguard.collectTime"); ct != nil {
		for _, fi := range c.P.FuncsIn("timesafeguard") {
			if fi.Body() == nil || fi.Obj == nil || !fi.Obj.Exported() {
				continue
			}
			info := fi.Info()
			for _, call := range callsIn(fi, func(fn *types.Func, _ *ast.CallExpr) bool { return fn == ct.Obj }) {
				if len(call.Args) < 1 {
					continue
				}
				lid, ok := ast.Unparen(call.Args[0]).(*ast.Ident)
				if !ok {
					continue
				}
				lo := astx.Obj(info, lid)
				ast.Inspect(fi.Body(), func(nd ast.Node) bool {
					rs, ok := nd.(*ast.RangeStmt)
					if !ok || rs.Value == nil {
						return true
					}
					vid, ok := rs.Value.(*ast.Ident)
					if !ok {
						return true
					}
					vo := astx.Obj(info, vid)
					ast.Inspect(rs.Body, func(m ast.Node) bool {
						as, ok := m.(*ast.AssignStmt)
						if !ok || len(as.Lhs) != 1 || len(as.Rhs) != 1 {
							return true
						}
						id, ok := as.Lhs[0].(*ast.Ident)
						if !ok || astx.Obj(info, id) != lo {
							return true
						}
						ap, ok := ast.Unparen(as.Rhs[0]).(*ast.CallExpr)
						if !ok || astx.Builtin(info, ap) != "append" || len(ap.Args) != 2 {
							return true
						}
						eid, isID := ast.Unparen(ap.Args[1]).(*ast.Ident)
						r.Check(isID && astx.Obj(info, eid) == vo, "C19.Z3", fi.Name(), "the peers asked are the peers given", c.P.Pos(as.Pos()), "append("+lid.Name+", <range variable>)",
							"the list of peers whose clocks are collected is filled with something else than the peer under iteration (e.g. the node's own address): no other node's clock is looked at")
						return true
					})
					return true
				})
			}
		}
	}
	// Z3j: every answered measurement reaches the checked set: in synchronizedWithNetwork, from the edge on which a
	// measurement is found non-empty, the next iteration is reached only through the append to the checked slice
	if swn != nil && swn.Body() != nil {
		info := swn.Info()
		g := c.Graph(swn)
		n := 0
		ast.Inspect(swn.Body(), func(nd ast.Node) bool {
			rs, ok := nd.(*ast.RangeStmt)
			if !ok {
				return true
			}
			head := -1
			for _, v := range g.V {
				for _, e := range v.Succ {
					if e.Range == rs {
						head = v.ID
					}
				}
			}
			isAppend := func(x int) bool {
				as, ok := g.V[x].Node.(*ast.AssignStmt)
				if !ok || len(as.Rhs) != 1 {
					return false
				}
				app, ok := ast.Unparen(as.Rhs[0]).(*ast.CallExpr)
				return ok && astx.Builtin(info, app) == "append"
			}
			for _, v := range g.V {
				for _, e := range v.Succ {
					if e.Cond == nil || e.Tag != nil || !(rs.Body.Pos() <= e.Cond.Pos() && e.Cond.End() <= rs.Body.End()) {
						continue
					}
					answered := false
					for _, fct := range cfgx.ExpandCond(e.Cond, e.Val) {
						if cc, isC := ast.Unparen(fct.Expr).(*ast.CallExpr); isC && !fct.Val {
							if fn := astx.Callee(info, cc); fn != nil && fname(fn) == "IsZero" {
								answered = true
							}
						}
					}
					if !answered || head < 0 {
						continue
					}
					n++
					skipped := !isAppend(e.To) && (e.To == head || g.Reach(e.To, isAppend, nil)[head])
					r.Check(!skipped, "C19.Z3", swn.Name(), "every answered measurement is put into the checked set", c.P.Pos(e.Cond.Pos()), "every path from the 'non-empty measurement' edge to the next iteration passes the append",
						"a peer that answered is not added to the measurements that are compared with the tolerance: its clock is never judged and a skewed network is joined")
				}
			}
			return true
		})
		if n == 0 {
			r.Break("C19.Z3: no 'non-empty measurement' edge found in synchronizedWithNetwork")
		}
		// Z4b: the peers reported as offending are those the refusal is based on: same predicate as timeInSync
		for _, v := range g.Nodes() {
			as, ok := v.Node.(*ast.AssignStmt)
			if !ok || len(as.Rhs) != 1 {
				continue
			}
			app, ok := ast.Unparen(as.Rhs[0]).(*ast.CallExpr)
			if !ok || astx.Builtin(info, app) != "append" || len(app.Args) != 2 {
				continue
			}
			if b, ok := info.TypeOf(app.Args[1]).Underlying().(*types.Basic); !ok || b.Kind() != types.String {
				continue
			}
			okPred := false
			for _, f := range g.FactsAt(v.ID) {
				be, ok := ast.Unparen(f.Expr).(*ast.BinaryExpr)
				if !ok || f.Tag != nil {
					continue
				}
				if cc, ok := ast.Unparen(be.X).(*ast.CallExpr); ok {
					if fn := astx.Callee(info, cc); fn != nil && fname(fn) == "worstCaseDrift" && isETExpr(info, be.Y) {
						if (be.Op == token.GEQ && f.Val) || (be.Op == token.LSS && !f.Val) {
							okPred = true
						}
					}
				}
			}
			r.Check(okPred, "C19.Z4", swn.Name(), "the peers reported are those whose bound reaches the election timeout", c.P.Pos(as.Pos()), "dominated by worstCaseDrift() >= ElectionTimeout",
				"the list of offending peers in the refusal is built with another test than the refusal itself: the operator is shown the wrong (or no) peers")
		}
	}
	// Z3k: in the entry points, a peer is left out of the collection only for being this node or the node already measured:
	// the append to the list handed to collectTime sits under unit tests `peer != <parameter>` only
	if ct := c.P.Func("timesafeguard.collectTime"); ct != nil {
		n := 0
		for _, fi := range c.P.FuncsIn("timesafeguard") {
			if fi.Body() == nil || fi.Obj == nil || !fi.Obj.Exported() {
				continue
			}
			info := fi.Info()
			g := c.Graph(fi)
			var params []types.Object
			for _, fld := range fi.FuncType().Params.List {
				for _, nm := range fld.Names {
					params = append(params, info.Defs[nm])
				}
			}
			for _, call := range callsIn(fi, func(fn *types.Func, _ *ast.CallExpr) bool { return fn == ct.Obj }) {
				if len(call.Args) < 1 {
					continue
				}
				lid, ok := ast.Unparen(call.Args[0]).(*ast.Ident)
				if !ok {
					continue
				}
				lo := astx.Obj(info, lid)
				nApp := 0
				for _, v := range g.Nodes() {
					as, ok := v.Node.(*ast.AssignStmt)
					if !ok || len(as.Lhs) != 1 || len(as.Rhs) != 1 {
						continue
					}
					id, ok := as.Lhs[0].(*ast.Ident)
					if !ok || astx.Obj(info, id) != lo {
						continue
					}
					app, ok := ast.Unparen(as.Rhs[0]).(*ast.CallExpr)
					if !ok || astx.Builtin(info, app) != "append" {
						continue
					}
					nApp++
					n++
					okF := true
					// the tests inside the loop over the peers
					var loopBody *ast.BlockStmt
					ast.Inspect(fi.Body(), func(nd ast.Node) bool {
						if rs, ok := nd.(*ast.RangeStmt); ok && rs.Body.Pos() <= as.Pos() && as.End() <= rs.Body.End() {
							loopBody = rs.Body
						}
						return true
					})
					var cls [][]lit
					for _, u := range g.V {
						if len(u.Succ) != 2 || u.Succ[0].Cond == nil || u.Succ[0].To == u.Succ[1].To {
							continue
						}
						for _, e := range u.Succ {
							if e.Tag == nil && loopBody != nil && loopBody.Pos() <= e.Cond.Pos() && e.Cond.End() <= loopBody.End() && g.EdgeDominates(e, v.ID) {
								cls = append(cls, c.clausesOf(info, fi.Node(), e.Cond, e.Val, 0)...)
							}
						}
					}
					if loopBody == nil {
						okF = false
					}
					for _, cl := range cls {
						unit := len(cl) == 1
						if unit {
							be, ok := ast.Unparen(cl[0].E).(*ast.BinaryExpr)
							isParam := func(e ast.Expr) bool {
								pid, ok := ast.Unparen(e).(*ast.Ident)
								if !ok {
									return false
								}
								for _, p := range params {
									if astx.Obj(info, pid) == p {
										return true
									}
								}
								return false
							}
							if !ok || !((be.Op == token.NEQ) == cl[0].Pos && (be.Op == token.NEQ || be.Op == token.EQL)) || !(isParam(be.X) || isParam(be.Y)) {
								unit = false
							}
						}
						if !unit {
							okF = false
						}
					}
					r.Check(okF, "C19.Z3", fi.Name(), "a peer is left out of the collection only for being this node or the join target", c.P.Pos(as.Pos()), "append under unit tests `peer != <parameter>` only",
						"the list of peers to measure is filtered by something else than 'not this node' / 'not the node already measured' (test inverted or widened): peers that should be measured are never asked, and a skewed network is joined")
				}
				r.Check(nApp >= 1, "C19.Z3", fi.Name(), "the list handed to collectTime is filled from the peers", c.P.Pos(call.Pos()), "an append to it exists",
					"the list of peers to measure is never filled: no peer's clock is looked at")
			}
		}
		if n < 2 {
			r.Break("C19.Z3: only %d appends to collection lists found in the entry points", n)
		}
	}
	c.errorDispositions("C19.Z6", []string{"timesafeguard"}, nil, "a failed measurement is taken for a good one, or the join target's failure is not fatal")
	// Z5e: the status answer is produced for this request: the value with CurrentTime is encoded straight into the response
	// writer (an answer assembled earlier, or kept for later requests, carries a time outside the asker's measurement window)
	if hs := c.P.Func("api.(*HTTP).handleStatus"); hs != nil && hs.Body() != nil {
		info := hs.Info()
		var resParam types.Object
		for _, fld := range hs.FuncType().Params.List {
			for _, nm := range fld.Names {
				if o := info.Defs[nm]; o != nil && strings.HasSuffix(o.Type().String(), "http.ResponseWriter") {
					resParam = o
				}
			}
		}
		nEnc := 0
		for _, call := range astx.Calls(hs.Body(), true) {
			se, ok := ast.Unparen(call.Fun).(*ast.SelectorExpr)
			if !ok || se.Sel.Name != "Encode" || len(call.Args) != 1 {
				continue
			}
			cl, ok := ast.Unparen(call.Args[0]).(*ast.CompositeLit)
			if !ok {
				// a local of this function every definition of which is such a literal (built for this request, possibly
				// by a constructor that was expanded here; the empty literal of an error path does not count against it)
				if id, isID := ast.Unparen(call.Args[0]).(*ast.Ident); isID {
					if obj, isVar := astx.Obj(info, id).(*types.Var); isVar && obj.Pos() >= hs.Body().Pos() && obj.Pos() <= hs.Body().End() {
						all := true
						for _, d := range defsOf(info, hs.Node(), obj) {
							if d == nil {
								continue
							}
							dl, isLit := ast.Unparen(d).(*ast.CompositeLit)
							if !isLit {
								all = false
								continue
							}
							if litField(dl, "CurrentTime") != nil {
								cl = dl
							}
						}
						if !all {
							cl = nil
						}
					}
				}
			}
			if cl == nil || litField(cl, "CurrentTime") == nil {
				continue
			}
			nEnc++
			// … and so is the list of peers the joining node goes on to measure: it is what raft says now, not something the
			// API kept from an earlier request (a follower never sees the join that would invalidate its copy)
			if pv := litField(cl, "Peers"); pv != nil {
				okPeers, via := true, ""
				// data dependence only (what the value is computed from; a test of some other field around an unrelated
				// statement does not count): the expression, and for every local in it what is assigned to it or its elements
				seenObj := map[types.Object]bool{}
				var visit func(e ast.Expr, depth int)
				visit = func(e ast.Expr, depth int) {
					if e == nil || depth > 5 {
						return
					}
					ast.Inspect(e, func(m ast.Node) bool {
						switch x := m.(type) {
						case *ast.FuncLit:
							return false
						case *ast.SelectorExpr:
							if fv := astx.FieldSel(info, x); fv != nil && fv.Pkg() != nil && load.ShortPkg(fv.Pkg().Path()) == "api" && fv.Name() != "raftNode" {
								if _, isHTTP := info.TypeOf(x.X).Underlying().(*types.Pointer); isHTTP || astx.NamedOf(info.TypeOf(x.X)) != nil {
									if n := astx.NamedOf(derefType(info.TypeOf(x.X))); n != nil && n.Obj().Name() == "HTTP" {
										okPeers, via = false, fv.Name()
									}
								}
							}
						case *ast.Ident:
							o, isVar := info.Uses[x].(*types.Var)
							if !isVar || o.IsField() || seenObj[o] || !(hs.Body().Pos() <= o.Pos() && o.Pos() <= hs.Body().End()) {
								return true
							}
							seenObj[o] = true
							ast.Inspect(hs.Body(), func(k ast.Node) bool {
								switch y := k.(type) {
								case *ast.AssignStmt:
									for i, l := range y.Lhs {
										b := astx.BaseIdent(l)
										if b == nil || astx.Obj(info, b) != types.Object(o) {
											continue
										}
										if len(y.Lhs) == len(y.Rhs) {
											visit(y.Rhs[i], depth+1)
										} else if len(y.Rhs) == 1 {
											visit(y.Rhs[0], depth+1)
										}
									}
								case *ast.RangeStmt:
									for _, kv := range []ast.Expr{y.Key, y.Value} {
										if kid, ok := kv.(*ast.Ident); ok && kv != nil && astx.Obj(info, kid) == types.Object(o) {
											visit(y.X, depth+1)
										}
									}
								}
								return true
							})
						}
						return true
					})
				}
				visit(pv, 0)
				r.Check(okPeers, "C19.Z5", hs.Name(), "the reported peers are read from raft for this request", c.P.Pos(pv.Pos()), "the value depends on no field of the API but raftNode",
					"the peer list of the status answer depends on the API's field "+via+": a copy kept between requests is stale on every node that did not handle the join — a node joining through it never measures the members added since")
			}
			okDirect := false
			if ne, ok := ast.Unparen(se.X).(*ast.CallExpr); ok && len(ne.Args) == 1 {
				if fn := astx.Callee(info, ne); fn != nil && fn.Name() == "NewEncoder" {
					if id, ok := ast.Unparen(ne.Args[0]).(*ast.Ident); ok && resParam != nil && astx.Obj(info, id) == resParam {
						okDirect = true
					}
				}
			}
			r.Check(okDirect, "C19.Z5", hs.Name(), "the reported time is encoded straight into this request's response", c.P.Pos(call.Pos()), "json.NewEncoder(<response writer>).Encode(…CurrentTime: time.Now()…)",
				"the status answer that carries CurrentTime is encoded into a buffer instead of the response: it can be kept and served to later requests, whose askers then bound the clock difference with a time that was not read inside their measurement window")
		}
		// … and nothing else writes the body on that path: no res.Write of bytes prepared elsewhere
		for _, call := range astx.Calls(hs.Body(), true) {
			if se, ok := ast.Unparen(call.Fun).(*ast.SelectorExpr); ok && se.Sel.Name == "Write" {
				if id, ok := ast.Unparen(se.X).(*ast.Ident); ok && resParam != nil && astx.Obj(info, id) == resParam {
					r.Fail("C19.Z5", hs.Name(), "the status body is not written from prepared bytes", c.P.Pos(call.Pos()),
						"handleStatus writes bytes to the response that were not encoded for this request: a cached answer carries an old CurrentTime")
				}
			}
		}
		if nEnc == 0 {
			r.Break("C19.Z5: the JSON encoding of the status (with CurrentTime) was not found in handleStatus")
		}
	}
	// Z3n: every peer has a slot of its own: the slice of measurements is made with one element per peer, and the index a
	// measurement is stored under is the position of its peer in that same list (the key of the range over it). Asking the
	// peers in batches and indexing by the position within the batch makes later batches overwrite earlier ones: a skewed
	// peer's measurement is lost and its slot reads "did not answer"
	if ct := c.P.Func("timesafeguard.collectTime"); ct != nil && ct.Body() != nil {
		info := ct.Info()
		var resObj types.Object
		var sized ast.Expr
		ast.Inspect(ct.Body(), func(n ast.Node) bool {
			as, ok := n.(*ast.AssignStmt)
			if !ok || len(as.Lhs) != 1 || len(as.Rhs) != 1 {
				return true
			}
			mk, ok := ast.Unparen(as.Rhs[0]).(*ast.CallExpr)
			if !ok || astx.Builtin(info, mk) != "make" || len(mk.Args) < 2 {
				return true
			}
			if nm := astx.NamedOf(info.TypeOf(mk.Args[0])); nm != nil {
				return true
			}
			sl, isSl := info.TypeOf(mk.Args[0]).Underlying().(*types.Slice)
			if !isSl || astx.NamedOf(sl.Elem()) == nil || astx.NamedOf(sl.Elem()).Obj().Name() != "timeResult" {
				return true
			}
			if lc, isLen := ast.Unparen(mk.Args[1]).(*ast.CallExpr); isLen && astx.Builtin(info, lc) == "len" && len(lc.Args) == 1 {
				if id, isID := as.Lhs[0].(*ast.Ident); isID {
					resObj, sized = astx.Obj(info, id), lc.Args[0]
				}
			}
			return true
		})
		nSlot := 0
		if resObj != nil {
			parents := astx.Parents(ct.Body())
			ast.Inspect(ct.Body(), func(n ast.Node) bool {
				ix, isIx := n.(*ast.IndexExpr)
				if !isIx {
					return true
				}
				bid, isID := ast.Unparen(ix.X).(*ast.Ident)
				if !isID || astx.Obj(info, bid) != resObj {
					return true
				}
				// a slot that is written: assigned to, or handed out by address (results[idx] = r; measureInto(&results[idx], …))
				var as ast.Node
				switch p := parents[ast.Node(ix)].(type) {
				case *ast.AssignStmt:
					for _, l := range p.Lhs {
						if ast.Unparen(l) == ast.Expr(ix) {
							as = p
						}
					}
				case *ast.UnaryExpr:
					if p.Op == token.AND {
						as = p
					}
				}
				if as == nil {
					return true
				}
				for once := true; once; once = false {
					nSlot++
					// the index: a range key, possibly handed to the goroutine literal as an argument
					okSlot, why := false, "the index is not the position of the peer in the list the slice was sized by"
					if iid, isI := ast.Unparen(ix.Index).(*ast.Ident); isI {
						key := astx.Obj(info, iid)
						var from ast.Node = as
						// parameter of an enclosing literal that is called where it stands: follow to the argument
						for p := parents[as]; p != nil; p = parents[p] {
							lit, isLit := p.(*ast.FuncLit)
							if !isLit {
								continue
							}
							k := 0
							for _, fld := range lit.Type.Params.List {
								for _, nm := range fld.Names {
									if info.Defs[nm] == key {
										if call, isCall := parents[ast.Node(lit)].(*ast.CallExpr); isCall && k < len(call.Args) {
											if aid, isA := ast.Unparen(call.Args[k]).(*ast.Ident); isA {
												key, from = astx.Obj(info, aid), call
											}
										}
									}
									k++
								}
							}
							break
						}
						for p := parents[from]; p != nil; p = parents[p] {
							rs, isR := p.(*ast.RangeStmt)
							if !isR {
								continue
							}
							if kid, isK := rs.Key.(*ast.Ident); isK && rs.Key != nil && astx.Obj(info, kid) == key {
								if astx.Same(info, rs.X, sized) {
									// … and the list is still the one the slice was sized by: not reassigned in the function
									reassigned := false
									if sid, isS := ast.Unparen(sized).(*ast.Ident); isS {
										for _, d := range defsOfIn(info, ct.Body(), astx.Obj(info, sid)) {
											_ = d
											reassigned = true
										}
									}
									if !reassigned {
										okSlot = true
									} else {
										why = "the list of peers is reassigned inside collectTime: positions in it no longer match the slots"
									}
								} else {
									why = "the index is the key of a range over " + astx.Str(rs.X) + ", not over " + astx.Str(sized) + " which sized the slice"
								}
								break
							}
						}
					}
					r.Check(okSlot, "C19.Z3", ct.Name(), "every peer's measurement has its own slot", c.P.Pos(as.Pos()), "results[<range key over the list that sized results>]",
						why+": measurements of different peers land in the same slot, a skewed peer's measurement is overwritten and the peer counts as silent")
				}
				return true
			})
		}
		if nSlot == 0 {
			r.Break("C19.Z3: no assignment to a slot of the measurements slice found in collectTime")
		}
	}
	// Z3l: a peer whose request succeeded has its measurement stored: in collectTime's goroutine every path from the nil-error
	// edge of getServerTime to the end of the goroutine passes the assignment of the slot
	if ct := c.P.Func("timesafeguard.collectTime"); ct != nil && ct.Body() != nil && gst != nil {
		info := ct.Info()
		n := 0
		// the measuring code: the goroutine's literal, or a named function of the package started with `go`
		type body struct {
			g    *cfgx.Graph
			root ast.Node
		}
		var bodies []body
		for _, lit := range funcLitsIn(ct.Body()) {
			bodies = append(bodies, body{c.LitGraph(ct.Name()+"$go", lit, info), lit})
			// a literal that only hands its parameters on to a function of the package: that function is the measuring code
			for _, call := range astx.Calls(lit.Body, false) {
				if fn := astx.Callee(info, call); fn != nil {
					if h := c.P.FuncOf(fn); h != nil && h.Body() != nil && load.ShortPkg(h.Pkg.PkgPath) == "timesafeguard" && h != gst {
						bodies = append(bodies, body{c.Graph(h), h.Node()})
					}
				}
			}
		}
		ast.Inspect(ct.Body(), func(nd ast.Node) bool {
			if gs, ok := nd.(*ast.GoStmt); ok {
				if fn := astx.Callee(info, gs.Call); fn != nil {
					if h := c.P.FuncOf(fn); h != nil && h.Body() != nil && load.ShortPkg(h.Pkg.PkgPath) == "timesafeguard" {
						bodies = append(bodies, body{c.Graph(h), h.Node()})
					}
				}
			}
			return true
		})
		resT := c.P.Named("timesafeguard", "timeResult")
		for _, b := range bodies {
			lg, lit := b.g, b.root
			isSlot := func(x int) bool {
				as, ok := lg.V[x].Node.(*ast.AssignStmt)
				if !ok || len(as.Lhs) != 1 {
					return false
				}
				switch l := ast.Unparen(as.Lhs[0]).(type) {
				case *ast.IndexExpr:
					return true
				case *ast.StarExpr:
					// *slot = result through a *timeResult parameter
					return resT != nil && astx.NamedOf(info.TypeOf(l)) == resT
				}
				return false
			}
			for _, v := range lg.V {
				for _, e := range v.Succ {
					if e.Cond == nil {
						continue
					}
					okNil := false
					for _, f := range cfgx.ExpandCond(e.Cond, e.Val) {
						x, isNil, ok := nilCompare(info, f)
						if !ok || !isNil {
							continue
						}
						if id, ok := ast.Unparen(x).(*ast.Ident); ok {
							for _, d := range defsOf(info, lit, astx.Obj(info, id)) {
								if call, ok := ast.Unparen(d).(*ast.CallExpr); d != nil && ok && astx.Callee(info, call) == gst.Obj {
									okNil = true
								}
							}
						}
					}
					if !okNil {
						continue
					}
					n++
					skipped := !isSlot(e.To) && lg.Reach(e.To, isSlot, nil)[lg.Exit]
					r.Check(!skipped, "C19.Z3", ct.Name(), "a peer that answered has its measurement stored", c.P.Pos(e.Cond.Pos()), "every path from the nil-error edge of getServerTime to the end of the goroutine passes results[idx] = …",
						"collectTime drops a measurement although the peer answered (e.g. because the answer was slow): the empty slot is later taken for 'did not answer' and ignored, so a peer about which nothing good can be proven is trusted instead of making the node refuse")
				}
			}
		}
		if n == 0 {
			r.Break("C19.Z3: no nil-error edge of getServerTime found in collectTime's goroutine")
		}
	}
	// Z3m: a peer's status is fetched through getServerTime only, so every answer is a measurement (an entry point that asks
	// the join target for its peer list directly learns its clock and throws it away)
	for _, fi := range c.P.FuncsIn("timesafeguard") {
		if fi.Body() == nil || gst != nil && fi == gst {
			continue
		}
		info := fi.Info()
		for _, call := range astx.Calls(fi.Body(), true) {
			if fn := astx.Callee(info, call); fn != nil && fname(fn) == "GetServerStatus" {
				r.Fail("C19.Z3", fi.Name(), "peers are asked through getServerTime only", c.P.Pos(call.Pos()),
					"a peer's status is requested outside getServerTime: its answer carries its clock, but no measurement is taken from it — the node being joined is then judged only if a second request to it succeeds, and ignored as 'did not answer' if that fails")
			}
		}
	}
	// Z6: error discipline of the package
	{
		nErr := 0
		for _, fi := range c.P.FuncsIn("timesafeguard") {
			if fi.Body() != nil {
				nErr += c.errorDiscipline("C19.Z6", fi, "a failed measurement is taken for a good one, or the join target's failure is not fatal")
			}
		}
		if nErr < 4 {
			r.Break("C19.Z6: only %d error definitions found in timesafeguard", nErr)
		}
	}
	// Z5b: the answering side reports its clock as it is: Status.CurrentTime is time.Now() itself (not rounded or
	// otherwise transformed: the bound assumes the reported instant lies inside the request interval)
	if hs := c.P.Func("api.(*HTTP).handleStatus"); hs != nil {
		info := hs.Info()
		n := 0
		ast.Inspect(hs.Body(), func(nd ast.Node) bool {
			cl, ok := nd.(*ast.CompositeLit)
			if !ok {
				return true
			}
			v := litField(cl, "CurrentTime")
			if v == nil {
				return true
			}
			n++
			isNow := func(e ast.Expr) bool {
				call, ok := ast.Unparen(e).(*ast.CallExpr)
				if !ok {
					return false
				}
				fn := astx.Callee(info, call)
				return fn != nil && fn.FullName() == "time.Now"
			}
			okNow := isNow(v)
			if !okNow {
				if d := uniqueDef(info, hs.Node(), v); d != nil {
					okNow = isNow(d)
				}
			}
			r.Check(okNow, "C19.Z5", hs.Name(), "the reported time is the clock reading itself", c.P.Pos(v.Pos()), "CurrentTime: time.Now()",
				"the node reports a transformed clock reading (rounded, truncated, cached): the reported instant can lie outside the interval in which the request was served, which the bound of the asking node assumes, so a clock that is off by more than the tolerance can measure below it")
			return true
		})
		r.Check(n >= 1, "C19.Z5", hs.Name(), "status answer carries CurrentTime", c.P.Pos(hs.Node().Pos()), itoa(n), "handleStatus no longer reports CurrentTime: every peer looks unanswered and is ignored")
	} else {
		r.Break("anchor function api.(*HTTP).handleStatus not found in /repo")
	}
	// Z3d: every measurement taken is judged: in each exported entry point of the package, every local holding a single
	// measurement (the join target's) is part of the slice handed to synchronizedWithNetwork on every path
	if swn != nil {
		resT := c.P.Named("timesafeguard", "timeResult")
		for _, fi := range c.P.FuncsIn("timesafeguard") {
			if fi.Body() == nil || fi.Obj == nil || !fi.Obj.Exported() {
				continue
			}
			info := fi.Info()
			g := c.Graph(fi)
			calls := callsIn(fi, func(fn *types.Func, _ *ast.CallExpr) bool { return fn == swn.Obj })
			if len(calls) == 0 {
				continue
			}
			// single measurements: locals of type timeResult defined from a call
			var singles []types.Object
			ast.Inspect(fi.Body(), func(n ast.Node) bool {
				as, ok := n.(*ast.AssignStmt)
				if !ok || as.Tok != token.DEFINE {
					return true
				}
				for _, l := range as.Lhs {
					if id, ok := l.(*ast.Ident); ok {
						if o := info.Defs[id]; o != nil && resT != nil && types.Identical(o.Type(), resT) {
							singles = append(singles, o)
						}
					}
				}
				return true
			})
			for _, call := range calls {
				if len(call.Args) != 1 {
					continue
				}
				aid, ok := ast.Unparen(call.Args[0]).(*ast.Ident)
				if !ok {
					continue
				}
				slice := astx.Obj(info, aid)
				cv := g.VertexOf(call)
				for _, single := range singles {
					// every definition of the slice that reaches the call mentions the single measurement, directly or
					// by extending a value that did (append(slice, …) of an earlier definition is judged at that definition)
					okAll := true
					var defVs []int
					for _, v := range g.Nodes() {
						if as, ok := v.Node.(*ast.AssignStmt); ok {
							for _, l := range as.Lhs {
								if id, ok := l.(*ast.Ident); ok && astx.Obj(info, id) == slice {
									defVs = append(defVs, v.ID)
								}
							}
						}
					}
					isDef := func(x int) bool {
						for _, d := range defVs {
							if d == x {
								return true
							}
						}
						return false
					}
					for _, d := range defVs {
						// does this definition reach the call without being overwritten?
						reaches := false
						for _, e := range g.V[d].Succ {
							if e.To == cv || g.Reach(e.To, func(x int) bool { return isDef(x) }, nil)[cv] {
								reaches = true
							}
						}
						if !reaches {
							continue
						}
						if !astx.Mentions(info, g.V[d].Node, single) {
							okAll = false
						}
					}
					r.Check(okAll && len(defVs) > 0, "C19.Z3", fi.Name(), "the measurement "+single.Name()+" is among those judged", c.P.Pos(call.Pos()), "every definition of "+slice.Name()+" reaching synchronizedWithNetwork contains it",
						"a measurement that was taken (the node being joined) does not reach the comparison on some path: its clock is never evaluated and a skewed join target is accepted")
				}
			}
		}
	}
	// Z3h: no measurement is thrown away where it is taken
	if gst != nil {
		nCalls := 0
		for _, fi := range c.P.FuncsIn("timesafeguard") {
			if fi.Body() == nil {
				continue
			}
			info := fi.Info()
			ast.Inspect(fi.Body(), func(n ast.Node) bool {
				var lhs []ast.Expr
				var rhs ast.Expr
				switch x := n.(type) {
				case *ast.AssignStmt:
					if len(x.Rhs) == 1 {
						lhs, rhs = x.Lhs, x.Rhs[0]
					}
				case *ast.ExprStmt:
					rhs = x.X
				}
				call, ok := rhs.(*ast.CallExpr)
				if !ok {
					return true
				}
				if fn := astx.Callee(info, call); fn == nil || fn != gst.Obj {
					return true
				}
				nCalls++
				kept := false
				if len(lhs) > 0 {
					if id, ok := lhs[0].(*ast.Ident); ok && id.Name != "_" {
						kept = true
					}
				}
				r.Check(kept, "C19.Z3", fi.Name(), "the measurement taken by getServerTime is kept", c.P.Pos(call.Pos()), "first result bound to a variable",
					"a peer is asked for its time and the measurement is discarded (only its peer list or status is used): that peer's clock is not judged here, and if it is re-measured elsewhere a failure there is merely logged")
				return true
			})
		}
		if nCalls < 2 {
			r.Break("C19.Z3: only %d calls of getServerTime found", nCalls)
		}
	}
	// Z3b: collectTime stores a measurement only on the nil-error edge
	{
		info := ct.Info()
		for _, lit := range funcLitsIn(ct.Body()) {
			lg := c.LitGraph(ct.Name()+"$go", lit, info)
			for _, v := range lg.Nodes() {
				as, ok := v.Node.(*ast.AssignStmt)
				if !ok || len(as.Lhs) != 1 {
					continue
				}
				if _, isIdx := ast.Unparen(as.Lhs[0]).(*ast.IndexExpr); !isIdx {
					continue
				}
				okNil, why := c.errNilAfterCallLit(info, lit, lg, v.ID, func(fn *types.Func, _ *ast.CallExpr) bool { return fn == gst.Obj })
				// a slot that is given a value without a remote time (a literal that leaves Result unset: the peer's name for the
				// log) is still the slot of a silent peer: the filter in front of timeInSync drops every entry whose Result is zero
				if !okNil && len(as.Rhs) == 1 {
					if cl, isLit := ast.Unparen(as.Rhs[0]).(*ast.CompositeLit); isLit && astx.NamedOf(info.TypeOf(cl)) != nil && astx.NamedOf(info.TypeOf(cl)).Obj().Name() == "timeResult" {
						keyed, setsResult := len(cl.Elts) > 0, false
						for _, el := range cl.Elts {
							kv, isKV := el.(*ast.KeyValueExpr)
							if !isKV {
								keyed = false
								continue
							}
							if k, isID := kv.Key.(*ast.Ident); isID && k.Name == "Result" {
								setsResult = true
							}
						}
						if (keyed || len(cl.Elts) == 0) && !setsResult {
							okNil, why = true, "a literal without a remote time: ignored like an empty slot"
						}
					}
				}
				r.Check(okNil, "C19.Z3", ct.Name(), "slot filled only for answering peers", c.P.Pos(as.Pos()), why,
					"collectTime stores a measurement although getServerTime failed: a peer that did not answer is not left as the zero value")
			}
		}
	}

	// Z3c: collectTime hands back what it collected even when some peer failed (both callers only log the error and go on)
	{
		info := ct.Info()
		g := c.Graph(ct)
		var resObj types.Object
		ast.Inspect(ct.Body(), func(n ast.Node) bool {
			if as, ok := n.(*ast.AssignStmt); ok && len(as.Lhs) == 1 && len(as.Rhs) == 1 {
				if call, ok := ast.Unparen(as.Rhs[0]).(*ast.CallExpr); ok && astx.Builtin(info, call) == "make" && resObj == nil {
					if _, isSlice := info.TypeOf(call).Underlying().(*types.Slice); isSlice {
						if id, ok := as.Lhs[0].(*ast.Ident); ok {
							resObj = astx.Obj(info, id)
						}
					}
				}
			}
			return true
		})
		callersIgnoreErr := true
		for _, caller := range c.P.FuncsIn("timesafeguard") {
			for _, call := range callsIn(caller, func(fn *types.Func, _ *ast.CallExpr) bool { return fn == ct.Obj }) {
				cg := c.Graph(caller)
				if c.errorEdgeFatal(caller, cg, call) {
					callersIgnoreErr = false
				}
			}
		}
		for _, rv := range g.Returns() {
			rs := rv.Node.(*ast.ReturnStmt)
			if len(rs.Results) != 2 {
				continue
			}
			id, ok := ast.Unparen(rs.Results[0]).(*ast.Ident)
			okRes := ok && resObj != nil && astx.Obj(info, id) == resObj
			r.Check(okRes || !callersIgnoreErr, "C19.Z3", ct.Name(), "returns the collected measurements", c.P.Pos(rs.Pos()), "first result is the results slice",
				"collectTime drops the measurements it collected when one peer failed, while its callers only log the error and evaluate the returned slice: one unreachable peer makes every other (possibly skewed) peer invisible and the node joins unchecked")
		}
	}
	// Z1b: the flag values are handed to the parameters they are named after
	{
		info := mainFn.Info()
		for _, call := range astx.Calls(mainFn.Body(), false) {
			fn := astx.Callee(info, call)
			if fn == nil || fn.Pkg() == nil || fn.Pkg().Path() != pathTimesafe {
				continue
			}
			sig := fn.Type().(*types.Signature)
			for i, a := range call.Args {
				if i >= sig.Params().Len() {
					break
				}
				st, ok := ast.Unparen(a).(*ast.StarExpr)
				if !ok {
					continue
				}
				id, ok := ast.Unparen(st.X).(*ast.Ident)
				if !ok {
					continue
				}
				pn := sig.Params().At(i).Name()
				// only judged when some parameter of the callee carries this flag's name
				named := false
				for j := 0; j < sig.Params().Len(); j++ {
					if sig.Params().At(j).Name() == id.Name {
						named = true
					}
				}
				if named {
					r.Check(pn == id.Name, "C19.Z1", mainFn.Name(), "flag -"+id.Name+" passed as parameter "+pn+" of "+fn.Name(), c.P.Pos(a.Pos()), "argument and parameter names agree",
						"the value of -"+id.Name+" is passed where "+fn.Name()+" expects "+pn+" (two string arguments swapped): the node measures itself instead of the peer it joins")
				}
			}
		}
	}

	// Z4
	{
		info := tis.Info()
		g := c.Graph(tis)
		nFalse := 0
		for _, rv := range g.Returns() {
			rs := rv.Node.(*ast.ReturnStmt)
			if len(rs.Results) != 1 {
				continue
			}
			id, ok := ast.Unparen(rs.Results[0]).(*ast.Ident)
			if !ok {
				continue
			}
			switch id.Name {
			case "false":
				nFalse++
				ok := false
				for _, f := range g.FactsAt(rv.ID) {
					if f.Tag != nil {
						continue
					}
					be, isBE := ast.Unparen(f.Expr).(*ast.BinaryExpr)
					if !isBE {
						continue
					}
					isDrift := func(e ast.Expr) bool {
						call, ok := ast.Unparen(e).(*ast.CallExpr)
						return ok && astx.Callee(info, call) == wcd.Obj
					}
					isET := func(e ast.Expr) bool {
						return isETExpr(info, e)
					}
					// refuse iff drift >= timeout
					if isDrift(be.X) && isET(be.Y) && ((be.Op == token.GEQ && f.Val) || (be.Op == token.LSS && !f.Val)) {
						ok = true
					}
					if isET(be.X) && isDrift(be.Y) && ((be.Op == token.LEQ && f.Val) || (be.Op == token.GTR && !f.Val)) {
						ok = true
					}
				}
				r.Check(ok, "C19.Z4", tis.Name(), "refuses exactly when worstCaseDrift() >= ElectionTimeout", c.P.Pos(rs.Pos()), "return false on drift >= ElectionTimeout",
					"the refusing branch of timeInSync is not `worstCaseDrift() >= ElectionTimeout` (different bound, different constant or strictness)")
			case "true":
				// success only after the loop examined everything: no `return true` inside the range body
				inLoop := false
				ast.Inspect(tis.Body(), func(n ast.Node) bool {
					if rg, ok := n.(*ast.RangeStmt); ok && rg.Body.Pos() <= rs.Pos() && rs.End() <= rg.Body.End() {
						inLoop = true
					}
					return true
				})
				r.Check(!inLoop, "C19.Z4", tis.Name(), "success only after all measurements were examined", c.P.Pos(rs.Pos()), "return true outside the loop",
					"timeInSync returns true from inside the loop: later peers are not examined")
			}
		}
		r.Check(nFalse > 0, "C19.Z4", tis.Name(), "has a refusing return", c.P.Pos(tis.Node().Pos()), "found", "timeInSync never returns false")
		// raft timeouts are the same constant
		mi := mainFn.Info()
		for _, fieldName := range []string{"ElectionTimeout", "HeartbeatTimeout", "LeaderLeaseTimeout"} {
			found, okSame := false, false
			ast.Inspect(mainFn.Body(), func(n ast.Node) bool {
				as, ok := n.(*ast.AssignStmt)
				if !ok || len(as.Lhs) != 1 || len(as.Rhs) != 1 {
					return true
				}
				se, ok := ast.Unparen(as.Lhs[0]).(*ast.SelectorExpr)
				if !ok || se.Sel.Name != fieldName || !astx.IsNamed(mi.TypeOf(se.X), pathRaft, "Config") {
					return true
				}
				found = true
				switch x := ast.Unparen(as.Rhs[0]).(type) {
				case *ast.SelectorExpr:
					okSame = mi.Uses[x.Sel] == etObj
				case *ast.Ident:
					okSame = mi.Uses[x] == etObj
				}
				return true
			})
			r.Check(found && okSame, "C19.Z4", mainFn.Name(), "raft config."+fieldName+" is timesafeguard.ElectionTimeout", c.P.Pos(mainFn.Node().Pos()),
				"assigned from the same constant object", "raft's "+fieldName+" is not assigned from timesafeguard.ElectionTimeout: the safeguard's bound and raft's timer can drift apart")
		}
	}

	// Z5
	{
		info := wcd.Info()
		tr := c.P.Named("timesafeguard", "timeResult")
		var fStart, fEnd, fResult *types.Var
		for _, f := range structFields(tr) {
			switch f.Name() {
			case "Start":
				fStart = f
			case "End":
				fEnd = f
			case "Result":
				fResult = f
			}
		}
		if fStart == nil || fEnd == nil || fResult == nil {
			r.Break("timeResult fields not found")
			return
		}
		deps := flowx.Compute(info, wcd.Node())
		for _, rv := range c.Graph(wcd).Returns() {
			rs := rv.Node.(*ast.ReturnStmt)
			if len(rs.Results) != 1 {
				continue
			}
			d := deps.Of(rs.Results[0])
			for _, f := range []*types.Var{fStart, fEnd, fResult} {
				r.Check(d[f], "C19.Z5", wcd.Name(), "bound depends on "+f.Name(), c.P.Pos(rs.Pos()), "in the def-use slice of the returned value",
					"the returned bound does not depend on the measured instant "+f.Name())
			}
		}
		// shape: |Result - Start| (sign normalised) + (End - Start) added
		subOf := func(e ast.Expr) (recv, arg *types.Var) {
			call, ok := ast.Unparen(e).(*ast.CallExpr)
			if !ok || len(call.Args) != 1 {
				return nil, nil
			}
			se, ok := ast.Unparen(call.Fun).(*ast.SelectorExpr)
			if !ok || se.Sel.Name != "Sub" {
				return nil, nil
			}
			rs, ok1 := ast.Unparen(se.X).(*ast.SelectorExpr)
			as, ok2 := ast.Unparen(call.Args[0]).(*ast.SelectorExpr)
			if !ok1 || !ok2 {
				return nil, nil
			}
			return astx.FieldSel(info, rs), astx.FieldSel(info, as)
		}
		absOK, rtOK := false, false
		g := c.Graph(wcd)
		ast.Inspect(wcd.Body(), func(n ast.Node) bool {
			switch x := n.(type) {
			case *ast.AssignStmt:
				if len(x.Lhs) == 1 && len(x.Rhs) == 1 {
					// drift = -drift under drift < 0
					if u, ok := ast.Unparen(x.Rhs[0]).(*ast.UnaryExpr); ok && u.Op == token.SUB && astx.Same(info, u.X, x.Lhs[0]) {
						v := g.VertexOf(x)
						for _, f := range g.FactsAt(v) {
							if be, ok := ast.Unparen(f.Expr).(*ast.BinaryExpr); ok && f.Tag == nil {
								zero := func(e ast.Expr) bool { v, ok := astx.ConstInt(info, e); return ok && v == 0 }
								if astx.Same(info, be.X, x.Lhs[0]) && zero(be.Y) && ((be.Op == token.LSS && f.Val) || (be.Op == token.GEQ && !f.Val)) {
									// the negated variable holds Result - Start (either order: it is normalised)
									for _, d := range defsOf(info, wcd.Node(), astx.Obj(info, x.Lhs[0].(*ast.Ident))) {
										if a, b := subOf(d); (a == fResult && b == fStart) || (a == fStart && b == fResult) {
											absOK = true
										}
									}
								}
							}
						}
					}
					// drift += End.Sub(Start)
					if x.Tok == token.ADD_ASSIGN {
						if a, b := subOf(x.Rhs[0]); a == fEnd && b == fStart {
							rtOK = true
						}
					}
					if be, ok := ast.Unparen(x.Rhs[0]).(*ast.BinaryExpr); ok && be.Op == token.ADD && x.Tok == token.ASSIGN {
						for _, side := range []ast.Expr{be.X, be.Y} {
							if a, b := subOf(side); a == fEnd && b == fStart {
								rtOK = true
							}
						}
					}
				}
			case *ast.CallExpr:
				// (Result.Sub(Start)).Abs()
				if se, ok := ast.Unparen(x.Fun).(*ast.SelectorExpr); ok && se.Sel.Name == "Abs" {
					if a, b := subOf(se.X); (a == fResult && b == fStart) || (a == fStart && b == fResult) {
						absOK = true
					}
				}
			case *ast.ReturnStmt:
				if len(x.Results) == 1 {
					if be, ok := ast.Unparen(x.Results[0]).(*ast.BinaryExpr); ok && be.Op == token.ADD {
						for _, side := range []ast.Expr{be.X, be.Y} {
							if a, b := subOf(side); a == fEnd && b == fStart {
								rtOK = true
							}
						}
					}
				}
			}
			return true
		})
		pos := c.P.Pos(wcd.Node().Pos())
		r.Check(absOK, "C19.Z5", wcd.Name(), "local/remote difference is sign-normalised", pos, "negated under < 0 (or .Abs())",
			"the difference between remote time and local start is not made absolute: a peer whose clock is behind produces a negative bound and always passes")
		r.Check(rtOK, "C19.Z5", wcd.Name(), "round trip End-Start is added", pos, "+ End.Sub(Start)",
			"the measurement's round trip (End.Sub(Start)) is not added to the bound: network delay hides a real offset")

		// Start before / End after the request
		gi := gst.Info()
		gg := c.Graph(gst)
		var reqV = -1
		for _, v := range gg.Nodes() {
			for _, call := range astx.Calls(v.Node, false) {
				if fn := astx.Callee(gi, call); fn != nil && fname(fn) == "GetServerStatus" {
					reqV = v.ID
				}
			}
		}
		r.Check(reqV >= 0, "C19.Z5", gst.Name(), "request call found", c.P.Pos(gst.Node().Pos()), "health.GetServerStatus", "getServerTime does not call health.GetServerStatus")
		// Z5d: a peer counts as "did not answer" exactly when the request failed: the error handed back is the request's own
		for _, rv := range gg.Returns() {
			rs := rv.Node.(*ast.ReturnStmt)
			if len(rs.Results) == 0 {
				continue
			}
			last := rs.Results[len(rs.Results)-1]
			okErr := false
			if d := uniqueDef(gi, gst.Node(), last); d != nil {
				if call, ok := ast.Unparen(d).(*ast.CallExpr); ok {
					if fn := astx.Callee(gi, call); fn != nil && fname(fn) == "GetServerStatus" {
						okErr = true
					}
				}
			}
			r.Check(okErr, "C19.Z5", gst.Name(), "the error handed back is the request's own", c.P.Pos(rs.Pos()), "single definition: health.GetServerStatus",
				"getServerTime can report an error for a peer that did answer (or none for one that did not): collectTime leaves such a peer's slot empty and synchronizedWithNetwork ignores it as silent — a peer about which nothing can be proven (e.g. a very slow answer) is trusted instead of making the node refuse")
		}
		// the fields of the measurement, wherever they are set: in a composite literal or by assignment to a field of a
		// timeResult (a named result, a local), also inside a deferred literal
		type fieldDef struct {
			field    string
			e        ast.Expr
			pos      ast.Node
			deferred bool // set in a literal that is deferred: evaluated when getServerTime returns
		}
		var defs []fieldDef
		isTR := func(t types.Type) bool {
			if p, ok := t.(*types.Pointer); ok {
				t = p.Elem()
			}
			return astx.IsNamed(t, pathTimesafe, "timeResult")
		}
		var walk func(n ast.Node, deferred bool)
		walk = func(n ast.Node, deferred bool) {
			ast.Inspect(n, func(m ast.Node) bool {
				switch x := m.(type) {
				case *ast.DeferStmt:
					if lit, ok := ast.Unparen(x.Call.Fun).(*ast.FuncLit); ok {
						for _, a := range x.Call.Args {
							walk(a, deferred)
						}
						walk(lit.Body, true)
						return false
					}
				case *ast.CompositeLit:
					if t := gi.TypeOf(x); t != nil && isTR(t) {
						for _, f := range []string{"Start", "End", "Result"} {
							if e := litField(x, f); e != nil {
								defs = append(defs, fieldDef{f, e, x, deferred})
							}
						}
					}
				case *ast.AssignStmt:
					if len(x.Lhs) == len(x.Rhs) {
						for i, l := range x.Lhs {
							if se, ok := ast.Unparen(l).(*ast.SelectorExpr); ok {
								if t := gi.TypeOf(se.X); t != nil && isTR(t) {
									switch se.Sel.Name {
									case "Start", "End", "Result":
										defs = append(defs, fieldDef{se.Sel.Name, x.Rhs[i], x, deferred})
									}
								}
							}
						}
					}
				}
				return true
			})
		}
		walk(gst.Body(), false)
		nS, nE, nR := 0, 0, 0
		for _, d := range defs {
			e := d.e
			if dd := uniqueDef(gi, gst.Node(), e); dd != nil {
				e = dd
			}
			switch d.field {
			case "Start":
				nS++
				okS := false
				if isTimeNow(gi, e) && !d.deferred {
					dv := gg.VertexOf(e)
					okS = reqV >= 0 && dv >= 0 && dv != reqV && gg.DominatedBy(reqV, func(x *cfgx.Vertex) bool { return x.ID == dv })
				}
				r.Check(okS, "C19.Z5", gst.Name(), "Start is taken before the request", c.P.Pos(d.pos.Pos()), "time.Now() dominating the request",
					"Start is not a time.Now() taken before the request is sent")
			case "End":
				nE++
				okE := false
				if isTimeNow(gi, e) {
					ev := gg.VertexOf(e)
					switch {
					case d.deferred && ev < 0:
						// time.Now() evaluated inside the deferred literal itself: when the function returns
						okE = contains(d.pos, e)
					default:
						okE = reqV >= 0 && ev >= 0 && ev != reqV && gg.DominatedBy(ev, func(x *cfgx.Vertex) bool { return x.ID == reqV })
					}
				}
				r.Check(okE, "C19.Z5", gst.Name(), "End is taken after the response", c.P.Pos(d.pos.Pos()), "time.Now() dominated by the request (or evaluated by a deferred literal)",
					"End is not a time.Now() taken after the response was received: the round trip that is added to the bound is too short (zero when End is evaluated before the request, e.g. as the argument of a deferred call), so a peer whose answer took long hides a real offset")
			case "Result":
				nR++
				okR := false
				if se, ok := ast.Unparen(d.e).(*ast.SelectorExpr); ok && se.Sel.Name == "CurrentTime" {
					okR = true
				}
				r.Check(okR, "C19.Z5", gst.Name(), "Result is the peer's reported time", c.P.Pos(d.pos.Pos()), "status.CurrentTime", "Result is not the CurrentTime reported by the peer")
			}
		}
		if nS == 0 || nE == 0 || nR == 0 {
			r.Break("C19.Z5: getServerTime sets Start %d, End %d, Result %d times: the measurement was not recognised", nS, nE, nR)
		}
	}
}

var _ = load.ModPath
