package rules

import (
	"go/ast"
	"go/constant"
	"go/token"
	"go/types"
	"sort"
	"strings"

	"verif/checker/internal/astx"
	"verif/checker/internal/cfgx"
	"verif/checker/internal/load"
)

func init() { register("C11", c11) }

// handlerShaped reports whether fi is a method of *api.HTTP whose first two parameters are (http.ResponseWriter, *http.Request).
func handlerShaped(fi *load.FuncInfo) bool {
	if fi.Obj == nil || !astx.Method(fi.Obj, pathAPI, "HTTP", fi.Obj.Name()) {
		return false
	}
	sig := fi.Obj.Type().(*types.Signature)
	if sig.Params().Len() < 2 {
		return false
	}
	return astx.IsNamed(sig.Params().At(0).Type(), "net/http", "ResponseWriter") && astx.IsNamed(sig.Params().At(1).Type(), "net/http", "Request")
}

// interestFilter reports whether the fact implies (msg.Type == Ping || msg.InterestingFor[<id>.Id]) and returns the <id> expression.
func interestFilter(info *types.Info, f cfgx.Fact) (ast.Expr, bool) {
	if f.Tag != nil {
		return nil, false
	}
	isIF := func(e ast.Expr) ast.Expr {
		ie, ok := ast.Unparen(e).(*ast.IndexExpr)
		if !ok {
			return nil
		}
		se, ok := ast.Unparen(ie.X).(*ast.SelectorExpr)
		if !ok || se.Sel.Name != "InterestingFor" {
			return nil
		}
		ks, ok := ast.Unparen(ie.Index).(*ast.SelectorExpr)
		if !ok || ks.Sel.Name != "Id" {
			return nil
		}
		return ks.X
	}
	isPingCmp := func(e ast.Expr, op token.Token) bool {
		be, ok := ast.Unparen(e).(*ast.BinaryExpr)
		return ok && be.Op == op && (refersTo(info, be.Y, pathRobust, "Ping") || refersTo(info, be.X, pathRobust, "Ping"))
	}
	e := ast.Unparen(f.Expr)
	// atom: InterestingFor[x.Id] true
	if id := isIF(e); id != nil && f.Val {
		return id, true
	}
	if u, ok := e.(*ast.UnaryExpr); ok && u.Op == token.NOT {
		if id := isIF(u.X); id != nil && !f.Val {
			return id, true
		}
	}
	be, ok := e.(*ast.BinaryExpr)
	if !ok {
		return nil, false
	}
	// (Type != Ping && !IF[x]) is false
	if be.Op == token.LAND && !f.Val {
		for _, pair := range [][2]ast.Expr{{be.X, be.Y}, {be.Y, be.X}} {
			if isPingCmp(pair[0], token.NEQ) {
				if u, ok := ast.Unparen(pair[1]).(*ast.UnaryExpr); ok && u.Op == token.NOT {
					if id := isIF(u.X); id != nil {
						return id, true
					}
				}
			}
		}
	}
	// (Type == Ping || IF[x]) is true
	if be.Op == token.LOR && f.Val {
		for _, pair := range [][2]ast.Expr{{be.X, be.Y}, {be.Y, be.X}} {
			if isPingCmp(pair[0], token.EQL) {
				if id := isIF(pair[1]); id != nil {
					return id, true
				}
			}
		}
	}
	return nil, false
}

func c11(c *Ctx) {
	r := c.R
	r.Explanation = "Decides the code shape of authentication: (H1) api.session returns success only after the X-Session-Auth header was read, found non-empty, the stored secret of exactly the parsed session id was fetched without error and compared equal, and it returns that same id; the secret is read nowhere else; (H2) in every function reachable from DispatchPublic a session id that reaches IRC state or a proposal is either the function's robust.Id parameter (then every call site passes a gate-derived id on the gate's nil-error edge) or the gate's own result on its nil-error edge; (H3) every message encoded to a GetMessages reader passed the InterestingFor[<authenticated id>] filter; (H4) DispatchPrivateWithoutAuth is reached only on the edge where BasicAuth succeeded with user robustirc and the network password; (H5) the world is closed: handler-shaped methods are called only from the dispatchers, never taken as values, private handlers are unreachable from DispatchPublic, and only the two dispatchers are registered. Not decided: that the stored secret is the one handed out (value flow through raft), timing side channels."
	r.Rules = []string{"C11.H1 the gate", "C11.H2 session sinks behind the gate", "C11.H3 stream filter", "C11.H4 admin gate", "C11.H5 closed world of routes"}

	c.c11DefaultMux()
	sess := c.MustFunc("api.(*HTTP).session")
	sop := c.MustFunc("api.(*HTTP).sessionOrProxy")
	pub := c.MustFunc("api.(*HTTP).DispatchPublic")
	priv := c.MustFunc("api.(*HTTP).DispatchPrivate")
	privNA := c.MustFunc("api.(*HTTP).DispatchPrivateWithoutAuth")
	getAuth := c.MustFunc("ircserver.(*IRCServer).GetAuth")
	authField := c.P.Field("ircserver", "Session", "auth")
	if sess == nil || sop == nil || pub == nil || priv == nil || privNA == nil || getAuth == nil || authField == nil {
		return
	}

	// ---------- H1
	{
		info := sess.Info()
		g := c.Graph(sess)
		name := sess.Name()
		var pathParam types.Object
		for _, fld := range sess.FuncType().Params.List {
			for _, nm := range fld.Names {
				if o := info.Defs[nm]; o != nil {
					if b, ok := o.Type().Underlying().(*types.Basic); ok && b.Kind() == types.String {
						pathParam = o
					}
				}
			}
		}
		// header variable: defined from r.Header.Get("X-Session-Auth")
		var headerObj, idObj, authObj types.Object
		var getAuthCall *ast.CallExpr
		ast.Inspect(sess.Body(), func(n ast.Node) bool {
			as, ok := n.(*ast.AssignStmt)
			if !ok || len(as.Rhs) != 1 {
				return true
			}
			call, ok := ast.Unparen(as.Rhs[0]).(*ast.CallExpr)
			if !ok {
				return true
			}
			fn := astx.Callee(info, call)
			if fn == nil {
				return true
			}
			lhs0, _ := as.Lhs[0].(*ast.Ident)
			switch {
			case astx.Method(fn, "net/http", "Header", "Get") && len(call.Args) == 1:
				if s, ok := astx.ConstString(info, call.Args[0]); ok && strings.EqualFold(s, "X-Session-Auth") && lhs0 != nil {
					headerObj = astx.Obj(info, lhs0)
				}
			case isFunc(fn, "strconv", "ParseUint") && len(call.Args) >= 1:
				if id, ok := ast.Unparen(call.Args[0]).(*ast.Ident); ok && astx.Obj(info, id) == pathParam && lhs0 != nil {
					idObj = astx.Obj(info, lhs0)
				}
			case fn == getAuth.Obj:
				getAuthCall = call
				if lhs0 != nil {
					authObj = astx.Obj(info, lhs0)
				}
			}
			return true
		})
		pos := c.P.Pos(sess.Node().Pos())
		r.Check(headerObj != nil, "C11.H1", name, "reads the X-Session-Auth header", pos, "r.Header.Get(\"X-Session-Auth\")", "the gate does not read the X-Session-Auth header")
		r.Check(idObj != nil, "C11.H1", name, "parses the id from the path argument", pos, "strconv.ParseUint(sessionId, …)", "the gate does not parse the session id from its path argument")
		okArg := false
		if getAuthCall != nil && len(getAuthCall.Args) == 1 && idObj != nil {
			if cl, ok := ast.Unparen(getAuthCall.Args[0]).(*ast.CompositeLit); ok {
				if v := litField(cl, "Id"); v != nil {
					if id, ok := ast.Unparen(v).(*ast.Ident); ok && astx.Obj(info, id) == idObj {
						okArg = len(cl.Elts) == 1
					}
				}
			}
		}
		r.Check(okArg, "C11.H1", name, "fetches the secret of exactly the parsed id", pos, "GetAuth(robust.Id{Id: id})", "the secret is not fetched for exactly the session id parsed from the request path")
		nOK := 0
		for _, rv := range g.Returns() {
			rs := rv.Node.(*ast.ReturnStmt)
			if len(rs.Results) != 2 || !isNilIdent(info, rs.Results[1]) {
				continue
			}
			nOK++
			rpos := c.P.Pos(rs.Pos())
			facts := g.FactsAt(rv.ID)
			nonEmpty, equal := false, false
			for _, f := range facts {
				if f.Tag != nil {
					continue
				}
				be, ok := ast.Unparen(f.Expr).(*ast.BinaryExpr)
				if !ok {
					continue
				}
				isObj := func(e ast.Expr, o types.Object) bool {
					id, ok := ast.Unparen(e).(*ast.Ident)
					return ok && o != nil && astx.Obj(info, id) == o
				}
				isEmpty := func(e ast.Expr) bool { s, ok := astx.ConstString(info, e); return ok && s == "" }
				if (isObj(be.X, headerObj) && isEmpty(be.Y)) || (isObj(be.Y, headerObj) && isEmpty(be.X)) {
					if (be.Op == token.EQL && !f.Val) || (be.Op == token.NEQ && f.Val) {
						nonEmpty = true
					}
				}
			}
			for _, f := range facts {
				isObj := func(e ast.Expr, o types.Object) bool {
					id, ok := ast.Unparen(e).(*ast.Ident)
					return ok && o != nil && astx.Obj(info, id) == o
				}
				for _, eq := range eqPairs(info, sess.Node(), f) {
					if (isObj(eq[0], headerObj) && isObj(eq[1], authObj)) || (isObj(eq[1], headerObj) && isObj(eq[0], authObj)) {
						equal = true
					}
				}
			}
			r.Check(nonEmpty, "C11.H1", name, "success only with a non-empty header", rpos, "dominated by header != \"\"",
				"the gate can succeed with a missing/empty X-Session-Auth header (a session whose stored secret is empty, e.g. a services pseudo-client, would be reachable without a secret)")
			r.Check(equal, "C11.H1", name, "success only when header equals the stored secret", rpos, "dominated by header == auth", "the gate can succeed without the header having been compared equal to the stored secret")
			okErr, why := c.errNilAfterCall(sess, g, rv.ID, func(fn *types.Func, _ *ast.CallExpr) bool { return fn == getAuth.Obj })
			r.Check(okErr, "C11.H1", name, "success only when the session exists", rpos, why, "the gate can succeed although GetAuth failed (no such session / not yet seen)")
			// returned id is built from the parsed id
			okRet := false
			if id, ok := ast.Unparen(rs.Results[0]).(*ast.Ident); ok && idObj != nil {
				ro := astx.Obj(info, id)
				// every write to the returned variable's Id field assigns the parsed id
				writes, good := 0, 0
				ast.Inspect(sess.Body(), func(n ast.Node) bool {
					as, ok := n.(*ast.AssignStmt)
					if !ok || len(as.Lhs) != 1 || len(as.Rhs) != 1 {
						return true
					}
					base := astx.BaseIdent(as.Lhs[0])
					if base == nil || astx.Obj(info, base) != ro {
						return true
					}
					if _, isDef := as.Lhs[0].(*ast.Ident); isDef && as.Tok == token.DEFINE {
						return true
					}
					writes++
					if rid, ok := ast.Unparen(as.Rhs[0]).(*ast.Ident); ok && astx.Obj(info, rid) == idObj {
						good++
					}
					return true
				})
				okRet = writes > 0 && writes == good
			} else if cl, ok := ast.Unparen(rs.Results[0]).(*ast.CompositeLit); ok {
				if v := litField(cl, "Id"); v != nil {
					if id, ok := ast.Unparen(v).(*ast.Ident); ok && astx.Obj(info, id) == idObj {
						okRet = true
					}
				}
			}
			r.Check(okRet, "C11.H1", name, "returns the authenticated id", rpos, "result.Id = id", "the id handed to the handlers is not the id whose secret was checked")
		}
		r.Check(nOK > 0, "C11.H1", name, "has a success return", pos, "found", "api.session never succeeds")
	}
	// GetAuth returns the secret of the looked-up session
	{
		info := getAuth.Info()
		// good: <s>.auth where s is defined (once) as the session looked up under GetAuth's parameter
		good := func(e ast.Expr) bool {
			se, isSel := astx.Expand(info, e).(*ast.SelectorExpr)
			if !isSel || astx.FieldSel(info, se) != authField {
				return false
			}
			d := uniqueDef(info, getAuth.Node(), se.X)
			if d == nil {
				return false
			}
			call, isCall := ast.Unparen(d).(*ast.CallExpr)
			if !isCall {
				return false
			}
			fn := astx.Callee(info, call)
			if fn == nil || !(fname(fn) == "GetSession" || fname(fn) == "getSessionLocked") || len(call.Args) != 1 {
				return false
			}
			id, isID := ast.Unparen(call.Args[0]).(*ast.Ident)
			if !isID {
				return false
			}
			for _, fld := range getAuth.FuncType().Params.List {
				for _, nm := range fld.Names {
					if info.Defs[nm] == astx.Obj(info, id) {
						return true
					}
				}
			}
			return false
		}
		empty := func(e ast.Expr) bool {
			s, isC := astx.ConstString(info, e)
			return isC && s == ""
		}
		// every value the first result can take is that secret or the empty string, and the secret occurs
		ok, sawSecret := true, false
		var value func(e ast.Expr, depth int) bool
		value = func(e ast.Expr, depth int) bool {
			if good(e) {
				sawSecret = true
				return true
			}
			if empty(e) {
				return true
			}
			if id, isID := ast.Unparen(e).(*ast.Ident); isID && depth < 3 {
				defs := defsOf(info, getAuth.Node(), astx.Obj(info, id))
				for _, d := range defs {
					if !value(d, depth+1) {
						return false
					}
				}
				// a named result without an initialiser starts empty
				return len(defs) > 0
			}
			return false
		}
		nRet := 0
		for _, rv := range c.Graph(getAuth).Returns() {
			rs := rv.Node.(*ast.ReturnStmt)
			if len(rs.Results) == 0 {
				// a bare return: the named first result
				if res := getAuth.FuncType().Results; res != nil && len(res.List) > 0 && len(res.List[0].Names) > 0 {
					nRet++
					if !value(res.List[0].Names[0], 0) {
						ok = false
					}
					continue
				}
			}
			if len(rs.Results) != 2 {
				ok = false
				continue
			}
			nRet++
			if !value(rs.Results[0], 0) {
				ok = false
			}
		}
		ok = ok && sawSecret && nRet > 0
		r.Check(ok, "C11.H1", getAuth.Name(), "returns the secret of the requested session", c.P.Pos(getAuth.Node().Pos()), "GetSession(<param>).auth", "GetAuth does not return the auth field of the session looked up under its parameter")
	}
	allowedReaders := map[string]string{
		"ircserver.(*IRCServer).GetAuth":            "the gate's accessor",
		"ircserver.(*IRCServer).Marshal":            "snapshot",
		"ircserver.(*IRCServer).generateCaptchaURL": "first 8 bytes as captcha challenge, sent only to the session itself",
	}
	for _, rd := range c.readersOf(authField) {
		why, ok := allowedReaders[rd.Name()]
		r.Check(ok, "C11.H1", rd.Name(), "reads Session.auth", c.P.Pos(c.funcFlow(rd).readPos[authField]), why, "the session secret is read by an unexpected function: it may leave the server")
	}

	// ---------- reachability from the two dispatchers (static calls inside package api)
	reachFrom := func(root *load.FuncInfo) map[*load.FuncInfo]bool {
		seen := map[*load.FuncInfo]bool{}
		var visit func(fi *load.FuncInfo)
		visit = func(fi *load.FuncInfo) {
			if fi == nil || seen[fi] || fi.Body() == nil {
				return
			}
			seen[fi] = true
			for _, call := range astx.Calls(fi.Body(), true) {
				if fn := astx.Callee(fi.Info(), call); fn != nil {
					if cal := c.P.FuncOf(fn); cal != nil && cal.Pkg.PkgPath == pathAPI {
						visit(cal)
					}
				}
			}
			// handlers held by a route table the function mentions
			for _, cal := range c.tableCallees(fi) {
				if cal.Pkg.PkgPath == pathAPI {
					visit(cal)
				}
			}
		}
		visit(root)
		return seen
	}
	pubReach := reachFrom(pub)
	privReach := reachFrom(privNA)
	r.Functions = len(pubReach) + len(privReach)

	// ---------- H1c: the gates only look: neither api.session nor sessionOrProxy proposes an entry or builds one ("a missing,
	// empty, wrong or other session's secret is refused without any effect on state")
	{
		amw := c.amwLike()
		for _, gate := range []*load.FuncInfo{sess, sop} {
			if gate == nil || gate.Body() == nil {
				continue
			}
			gi := gate.Info()
			bad := ""
			for _, call := range astx.Calls(gate.Body(), true) {
				if fn := astx.Callee(gi, call); fn != nil && amw[fn] {
					bad = "calls " + astx.Str(call.Fun)
				}
			}
			if len(compositeLitsOf(gi, gate.Body(), pathRobust, "Message")) > 0 {
				bad = "builds a robust.Message"
			}
			// … and the only thing it asks the IRC server for is the stored secret (closed list: GetAuth). Any other method
			// of the server, of the output stream or of the stores may change state on behalf of an unauthenticated request
			for _, call := range astx.Calls(gate.Body(), true) {
				fn := astx.Callee(gi, call)
				if fn == nil {
					continue
				}
				sig, _ := fn.Type().(*types.Signature)
				if sig == nil || sig.Recv() == nil {
					continue
				}
				rt := sig.Recv().Type()
				if p, ok := rt.(*types.Pointer); ok {
					rt = p.Elem()
				}
				if astx.IsNamed(rt, pathIrcsrv, "IRCServer") && fname(fn) != "GetAuth" {
					bad = "calls IRCServer." + fname(fn)
				}
				if astx.IsNamed(rt, pathOutput, "OutputStream") || astx.IsNamed(rt, pathStore, "LevelDBStore") {
					bad = "calls " + astx.Str(call.Fun)
				}
			}
			r.Check(bad == "", "C11.H1", gate.Name(), "the gate has no effect on state", c.P.Pos(gate.Node().Pos()), "no proposal, no robust.Message built",
				"the authentication gate itself proposes an entry ("+bad+"), i.e. a request that was not (yet) authenticated changes replicated state — e.g. deleting a session after a number of wrong secrets lets anybody delete any session")
		}
	}
	// ---------- H6: cross-origin access is granted to the configured origins only: the Access-Control-Allow-Origin header is
	// set under OriginWhitelisted(<origin>) being true
	if pub != nil && pub.Body() != nil {
		pi := pub.Info()
		pg := c.Graph(pub)
		nSet := 0
		for _, v := range pg.Nodes() {
			for _, call := range astx.Calls(v.Node, false) {
				se, ok := ast.Unparen(call.Fun).(*ast.SelectorExpr)
				if !ok || se.Sel.Name != "Set" || len(call.Args) != 2 {
					continue
				}
				if s, ok := astx.ConstString(pi, call.Args[0]); !ok || s != "Access-Control-Allow-Origin" {
					continue
				}
				nSet++
				okW := false
				for _, f := range pg.FactsAt(v.ID) {
					if fc, ok := ast.Unparen(f.Expr).(*ast.CallExpr); ok && f.Tag == nil && f.Val {
						if fn := astx.Callee(pi, fc); fn != nil && fname(fn) == "OriginWhitelisted" {
							okW = true
						}
					}
					// … or a flag every definition of which is that call or the constant false (the decision taken by a helper)
					if id, ok := ast.Unparen(f.Expr).(*ast.Ident); ok && f.Tag == nil && f.Val {
						nCall, other := 0, false
						for _, d := range defsOf(pi, pub.Node(), astx.Obj(pi, id)) {
							if d == nil {
								continue
							}
							if tv, isC := pi.Types[d]; isC && tv.Value != nil && tv.Value.Kind() == constant.Bool && !constant.BoolVal(tv.Value) {
								continue
							}
							if dc, isCall := ast.Unparen(d).(*ast.CallExpr); isCall {
								if fn := astx.Callee(pi, dc); fn != nil && fname(fn) == "OriginWhitelisted" {
									nCall++
									continue
								}
							}
							other = true
						}
						if nCall > 0 && !other {
							okW = true
						}
					}
				}
				r.Check(okW, "C11.H6", pub.Name(), "cross-origin access only for configured origins", c.P.Pos(call.Pos()), "dominated by OriginWhitelisted(origin)",
					"the Access-Control-Allow-Origin header is sent for origins the network configuration does not list: a web page on any site can drive a visitor's session with the session secret it holds")
			}
		}
		if nSet == 0 {
			r.Observe("C11.H6", pub.Name(), "cross-origin header", "-", "DispatchPublic sets no Access-Control-Allow-Origin header")
		}
	}
	// ---------- H1e: "no such session" and "not yet seen" are verdicts of the replicated state: the gates never produce them
	// themselves (e.g. from a node-local cache of ids that were answered with 404 once)
	for _, gate := range []*load.FuncInfo{sess, sop} {
		if gate == nil || gate.Body() == nil {
			continue
		}
		gi := gate.Info()
		for _, rv := range c.Graph(gate).Returns() {
			rs := rv.Node.(*ast.ReturnStmt)
			for _, res := range rs.Results {
				bad := refersTo(gi, res, pathIrcsrv, "ErrNoSuchSession") || refersTo(gi, res, pathIrcsrv, "ErrSessionNotYetSeen")
				if bad {
					r.Fail("C11.H1", gate.Name(), "the gate does not decide by itself that a session does not exist", c.P.Pos(rs.Pos()),
						"the gate returns "+astx.Str(res)+" itself instead of handing on what the IRC server answered: a node-local memory of refused ids turns one wrong secret (or a request that arrived before the session was applied) into 'No such session' for the legitimate owner of a live session")
				}
			}
		}
	}
	// ---------- H1d: the look-ups the gate relies on hand their errors on correctly
	for _, name := range []string{"ircserver.(*IRCServer).GetAuth", "ircserver.(*IRCServer).GetSession", "ircserver.(*IRCServer).getSessionLocked"} {
		if fi := c.P.Func(name); fi != nil && fi.Body() != nil {
			c.errorDiscipline("C11.H1", fi, "a session that does not exist is reported with a secret (the empty one), or an existing session is refused")
		}
	}
	// ---------- H2b: what the client's JSON body is decoded into is never itself the entry that gets proposed (a body that
	// is decoded on top of a pre-filled robust.Message can overwrite Session and Type)
	for fi := range pubReach {
		if fi.Body() == nil {
			continue
		}
		info := fi.Info()
		targets := map[types.Object]bool{}
		for _, call := range astx.Calls(fi.Body(), true) {
			fn := astx.Callee(info, call)
			if fn == nil || fn.Pkg() == nil || fn.Pkg().Path() != "encoding/json" || (fn.Name() != "Decode" && fn.Name() != "Unmarshal") || len(call.Args) == 0 {
				continue
			}
			arg := ast.Unparen(call.Args[len(call.Args)-1])
			if u, ok := arg.(*ast.UnaryExpr); ok && u.Op == token.AND {
				arg = ast.Unparen(u.X)
			}
			if id, ok := arg.(*ast.Ident); ok {
				targets[astx.Obj(info, id)] = true
			}
		}
		if len(targets) == 0 {
			continue
		}
		amw := c.amwLike()
		for _, call := range astx.Calls(fi.Body(), true) {
			fn := astx.Callee(info, call)
			if fn == nil || !amw[fn] || len(call.Args) == 0 {
				continue
			}
			arg := ast.Unparen(call.Args[0])
			// follow msg := &req / msg := req
			aliased := false
			for k := 0; k < 4; k++ {
				if u, ok := arg.(*ast.UnaryExpr); ok && u.Op == token.AND {
					arg = ast.Unparen(u.X)
				}
				if id, ok := arg.(*ast.Ident); ok && targets[astx.Obj(info, id)] {
					aliased = true
					break
				}
				if d := uniqueDef(info, fi.Node(), arg); d != nil {
					arg = ast.Unparen(d)
					continue
				}
				break
			}
			r.Check(!aliased, "C11.H2", fi.Name(), "the proposed entry is not the value the request body was decoded into", c.P.Pos(call.Pos()), "a separate robust.Message is built from selected fields",
				"the client's JSON body is decoded directly into the robust.Message that is then proposed: the body can set Session and Type, so a request authenticated for one session is applied as another session's message (or as a different entry type)")
		}
	}
	// ---------- H2
	isGate := func(fn *types.Func, _ *ast.CallExpr) bool { return fn == sess.Obj || fn == sop.Obj }
	var names []string
	for fi := range pubReach {
		names = append(names, fi.Name())
	}
	sort.Strings(names)
	nSinks := 0
	for _, nm := range names {
		fi := c.P.Func(nm)
		if fi == sess || fi == sop {
			continue
		}
		info := fi.Info()
		g := c.Graph(fi)
		// robust.Id parameters of this function
		idParams := map[types.Object]bool{}
		for _, fld := range fi.FuncType().Params.List {
			for _, pn := range fld.Names {
				if o := info.Defs[pn]; o != nil && astx.IsNamed(o.Type(), pathRobust, "Id") {
					if _, isPtr := o.Type().(*types.Pointer); !isPtr {
						idParams[o] = true
					}
				}
			}
		}
		checkUse := func(e ast.Expr, what string, at ast.Node) {
			nSinks++
			pos := c.P.Pos(e.Pos())
			root := ast.Unparen(e)
			if se, ok := root.(*ast.SelectorExpr); ok && se.Sel.Name == "Id" { // x.Id (uint64 part)
				root = ast.Unparen(se.X)
			}
			id, ok := root.(*ast.Ident)
			if !ok {
				r.Fail("C11.H2", fi.Name(), what, pos, "the session id used here ("+astx.Str(e)+") is built in place instead of coming from the gate: the route reaches session data without the secret having been checked")
				return
			}
			o := astx.Obj(info, id)
			if idParams[o] {
				r.Ok("C11.H2", fi.Name(), what, pos, "the function's robust.Id parameter (call sites checked)")
				return
			}
			defs := defsOf(info, fi.Node(), o)
			all := len(defs) > 0
			for _, d := range defs {
				call, ok := ast.Unparen(d).(*ast.CallExpr)
				if !ok {
					all = false
					break
				}
				if fn := astx.Callee(info, call); fn == nil || !isGate(fn, call) {
					all = false
				}
			}
			if !all {
				r.Fail("C11.H2", fi.Name(), what, pos, "the session id used here ("+astx.Str(e)+") does not come from api.session/sessionOrProxy")
				return
			}
			v := g.VertexOf(at)
			okNil, why := c.errNilAfterCall(fi, g, v, isGate)
			// uses inside goroutine literals started after the gate: the literal's position is dominated too
			r.Check(okNil, "C11.H2", fi.Name(), what, pos, why, "the gate's result is used on a path where the gate did not succeed: a wrong or missing secret still reaches session data")
		}
		ast.Inspect(fi.Body(), func(n ast.Node) bool {
			switch x := n.(type) {
			case *ast.CallExpr:
				fn := astx.Callee(info, x)
				if fn == nil {
					return true
				}
				// sinks: IRCServer methods taking a robust.Id; handler calls passing a robust.Id
				isIRC := astx.RecvNamed(fn) != nil && astx.RecvNamed(fn).Obj().Name() == "IRCServer"
				callee := c.P.FuncOf(fn)
				isHandlerCall := callee != nil && callee.Pkg.PkgPath == pathAPI && callee != sess && callee != sop
				if !isIRC && !isHandlerCall {
					return true
				}
				for ai, a := range x.Args {
					if isHandlerCall && !c.sessionSensitiveParam(callee, ai, map[*load.FuncInfo]bool{}) {
						continue // the callee uses this id only as a stream position, never to reach session state
					}
					if tv, ok := info.Types[a]; ok && astx.IsNamed(tv.Type, pathRobust, "Id") {
						if _, isPtr := tv.Type.(*types.Pointer); isPtr {
							continue
						}
						checkUse(a, "session id passed to "+load.FuncName(fn), x)
					}
				}
			case *ast.CompositeLit:
				if tv, ok := info.Types[x]; ok && astx.IsNamed(tv.Type, pathRobust, "Message") {
					if s := litField(x, "Session"); s != nil {
						checkUse(s, "Session of a proposed robust.Message", x)
					}
				}
			}
			return true
		})
	}
	r.Extra["public_reachable_functions"] = names
	r.Check(nSinks >= 8, "C11.H2", pub.Name(), "session sinks found", c.P.Pos(pub.Node().Pos()), "enumerated", "fewer session-scoped sinks than expected were found (vacuity guard)")

	// ---------- H3
	if hgm := c.MustFunc("api.(*HTTP).handleGetMessages"); hgm != nil {
		info := hgm.Info()
		g := c.Graph(hgm)
		n := 0
		for _, call := range astx.Calls(hgm.Body(), false) {
			fn := astx.Callee(info, call)
			if fn == nil || fname(fn) != "Encode" || len(call.Args) != 1 {
				continue
			}
			n++
			v := g.VertexOf(call)
			ok, why := false, ""
			for _, f := range append(g.CondsAt(v), g.FactsAt(v)...) {
				if idExpr, isF := interestFilter(info, f); isF {
					// the id is the gate's result
					if id, isID := ast.Unparen(idExpr).(*ast.Ident); isID {
						defs := defsOf(info, hgm.Node(), astx.Obj(info, id))
						all := len(defs) > 0
						for _, d := range defs {
							cc, isCall := ast.Unparen(d).(*ast.CallExpr)
							if !isCall {
								all = false
								break
							}
							if f2 := astx.Callee(info, cc); f2 == nil || !isGate(f2, cc) {
								all = false
							}
						}
						if all {
							ok, why = true, "filtered by InterestingFor["+id.Name+".Id] with "+id.Name+" from the gate"
						}
					}
				}
			}
			r.Check(ok, "C11.H3", hgm.Name(), "only messages interesting for the authenticated session are encoded", c.P.Pos(call.Pos()), why,
				"a message is written to the reader without having passed the InterestingFor[<authenticated session>] filter: other sessions' traffic is revealed")
		}
		r.Check(n > 0, "C11.H3", hgm.Name(), "encode site found", c.P.Pos(hgm.Node().Pos()), "found", "handleGetMessages encodes nothing")
	}

	// ---------- H4
	{
		info := priv.Info()
		g := c.Graph(priv)
		np := c.P.Field("api", "HTTP", "networkPassword")
		n := 0
		for _, call := range callsIn(priv, func(fn *types.Func, _ *ast.CallExpr) bool { return fn == privNA.Obj }) {
			n++
			v := g.VertexOf(call)
			okFlag, okUser, okPass := false, false, false
			for _, f := range g.FactsAt(v) {
				if f.Tag != nil {
					continue
				}
				if id, isID := ast.Unparen(f.Expr).(*ast.Ident); isID && f.Val {
					for _, d := range defsOf(info, priv.Node(), astx.Obj(info, id)) {
						if cc, isCall := ast.Unparen(d).(*ast.CallExpr); isCall {
							if fn := astx.Callee(info, cc); fn != nil && fname(fn) == "BasicAuth" {
								okFlag = true
							}
						}
					}
				}
				fromBasicAuth := func(e ast.Expr, idx int) bool {
					id, ok := ast.Unparen(e).(*ast.Ident)
					if !ok {
						return false
					}
					o := astx.Obj(info, id)
					res := false
					ast.Inspect(priv.Body(), func(n ast.Node) bool {
						if as, ok := n.(*ast.AssignStmt); ok && len(as.Rhs) == 1 && len(as.Lhs) == 3 {
							if cc, ok := ast.Unparen(as.Rhs[0]).(*ast.CallExpr); ok {
								if fn := astx.Callee(info, cc); fn != nil && fname(fn) == "BasicAuth" {
									if l, ok := as.Lhs[idx].(*ast.Ident); ok && astx.Obj(info, l) == o {
										res = true
									}
								}
							}
						}
						return true
					})
					return res
				}
				for _, eq := range eqPairs(info, priv.Node(), f) {
					for _, pair := range [][2]ast.Expr{{eq[0], eq[1]}, {eq[1], eq[0]}} {
						if fromBasicAuth(pair[0], 0) {
							if s, ok := astx.ConstString(info, pair[1]); ok && s != "" {
								okUser = true
							}
						}
						if fromBasicAuth(pair[0], 1) {
							if se, ok := ast.Unparen(pair[1]).(*ast.SelectorExpr); ok && astx.FieldSel(info, se) == np {
								okPass = true
							}
						}
					}
				}
			}
			pos := c.P.Pos(call.Pos())
			r.Check(okFlag, "C11.H4", priv.Name(), "private routes only with basic auth present", pos, "dominated by ok from r.BasicAuth()", "private routes are reachable without basic auth credentials being present")
			r.Check(okUser, "C11.H4", priv.Name(), "private routes only for the fixed user name", pos, "username compared equal to a constant", "the basic-auth user name is not checked")
			r.Check(okPass, "C11.H4", priv.Name(), "private routes only with the network password", pos, "password compared equal to api.networkPassword", "private routes are reachable without the password having been compared equal to the network password")
		}
		r.Check(n == 1, "C11.H4", priv.Name(), "one guarded hand-off", c.P.Pos(priv.Node().Pos()), "found", "DispatchPrivate does not hand off to DispatchPrivateWithoutAuth exactly once")
		// H4b: before the hand-off nothing is served: the response writer goes to http.Error, to its own Header() and to
		// DispatchPrivateWithoutAuth only
		{
			var wParam types.Object
			for _, fld := range priv.FuncType().Params.List {
				for _, nm := range fld.Names {
					if o := info.Defs[nm]; o != nil && strings.HasSuffix(o.Type().String(), "http.ResponseWriter") {
						wParam = o
					}
				}
			}
			for _, call := range astx.Calls(priv.Body(), true) {
				usesW := false
				for _, a := range call.Args {
					if id, ok := ast.Unparen(a).(*ast.Ident); ok && wParam != nil && astx.Obj(info, id) == wParam {
						usesW = true
					}
				}
				meth := ""
				if se, ok := ast.Unparen(call.Fun).(*ast.SelectorExpr); ok {
					if id, ok := ast.Unparen(se.X).(*ast.Ident); ok && wParam != nil && astx.Obj(info, id) == wParam {
						usesW, meth = true, se.Sel.Name
					}
				}
				if !usesW {
					continue
				}
				fn := astx.Callee(info, call)
				ok := meth == "Header" || fn != nil && (isFunc(fn, "net/http", "Error") || privNA != nil && fn == privNA.Obj)
				// a helper of the package that does nothing with the writer but refuse (http.Error, Header())
				if !ok && fn != nil {
					if h := c.P.FuncOf(fn); h != nil && h.Body() != nil && load.ShortPkg(h.Pkg.PkgPath) == "api" && h != priv {
						hi := h.Info()
						var hw types.Object
						for _, fld := range h.FuncType().Params.List {
							for _, nm := range fld.Names {
								if o := hi.Defs[nm]; o != nil && strings.HasSuffix(o.Type().String(), "http.ResponseWriter") {
									hw = o
								}
							}
						}
						refuses := hw != nil
						for _, c2 := range astx.Calls(h.Body(), true) {
							uses := false
							for _, a := range c2.Args {
								if id, isID := ast.Unparen(a).(*ast.Ident); isID && astx.Obj(hi, id) == hw {
									uses = true
								}
							}
							m2 := ""
							if se, isSel := ast.Unparen(c2.Fun).(*ast.SelectorExpr); isSel {
								if id, isID := ast.Unparen(se.X).(*ast.Ident); isID && astx.Obj(hi, id) == hw {
									uses, m2 = true, se.Sel.Name
								}
							}
							if !uses {
								continue
							}
							f2 := astx.Callee(hi, c2)
							if !(m2 == "Header" || f2 != nil && isFunc(f2, "net/http", "Error")) {
								refuses = false
							}
						}
						ok = refuses
					}
				}
				r.Check(ok, "C11.H4", priv.Name(), "nothing is served before the password gate", c.P.Pos(call.Pos()), "the response writer goes to http.Error, Header() and DispatchPrivateWithoutAuth only",
					"DispatchPrivate hands the response writer to "+astx.Str(call.Fun)+" itself: a private route (metrics, status, …) is answered on a path that does not go through the password comparison — e.g. for requests that merely claim to come from localhost")
			}
		}
		// the refusing edge answers 401 and reaches no handler: every http.Error in DispatchPrivate is 401
		for _, call := range callsIn(priv, func(fn *types.Func, _ *ast.CallExpr) bool { return isFunc(fn, "net/http", "Error") }) {
			code, ok := astx.ConstInt(info, call.Args[2])
			r.Check(ok && code == 401, "C11.H4", priv.Name(), "refusal answers 401", c.P.Pos(call.Pos()), "http.StatusUnauthorized", "a failed admin authentication is not answered with 401")
		}
	}

	// ---------- H4c: the password compared is the password the operator configured, and it is not empty
	{
		np := c.P.Field("api", "HTTP", "networkPassword")
		type ctorParam struct {
			fn  *load.FuncInfo
			idx int
		}
		var ctors []ctorParam
		nW := 0
		for _, fi := range c.P.FuncsIn("api") {
			if fi.Body() == nil {
				continue
			}
			info := fi.Info()
			paramIdx := func(e ast.Expr) int {
				id, isID := ast.Unparen(e).(*ast.Ident)
				if !isID {
					return -1
				}
				o := astx.Obj(info, id)
				k := 0
				for _, fld := range fi.FuncType().Params.List {
					for _, nm := range fld.Names {
						if info.Defs[nm] == o && o != nil {
							// the parameter is handed on as received: never assigned in the function
							assigned := false
							ast.Inspect(fi.Body(), func(n ast.Node) bool {
								if as, isAs := n.(*ast.AssignStmt); isAs {
									for _, l := range as.Lhs {
										if li, isL := ast.Unparen(l).(*ast.Ident); isL && astx.Obj(info, li) == o {
											assigned = true
										}
									}
								}
								return true
							})
							if assigned {
								return -1
							}
							return k
						}
						k++
					}
					if len(fld.Names) == 0 {
						k++
					}
				}
				return -1
			}
			var vals []ast.Expr
			ast.Inspect(fi.Body(), func(n ast.Node) bool {
				switch x := n.(type) {
				case *ast.KeyValueExpr:
					if k, isID := x.Key.(*ast.Ident); isID && info.Uses[k] == np {
						vals = append(vals, x.Value)
					}
				case *ast.AssignStmt:
					for i, l := range x.Lhs {
						if se, isSel := ast.Unparen(l).(*ast.SelectorExpr); isSel && astx.FieldSel(info, se) == np && len(x.Rhs) == len(x.Lhs) {
							vals = append(vals, x.Rhs[i])
						}
					}
				}
				return true
			})
			for _, v := range vals {
				nW++
				k := paramIdx(v)
				r.Check(k >= 0, "C11.H4", fi.Name(), "the network password is stored as it was given", c.P.Pos(v.Pos()), "the field is set from a parameter that is never reassigned",
					"the password the admin gate compares with is not the configured password but something derived from it ("+astx.Str(v)+"): peers and operators that present the configured password are refused, or a shorter / normalised one is accepted")
				if k >= 0 {
					ctors = append(ctors, ctorParam{fi, k})
				}
			}
		}
		r.Check(nW > 0, "C11.H4", "api.NewHTTP", "a writer of HTTP.networkPassword exists", "-", "found", "nothing sets HTTP.networkPassword: the admin gate compares with the empty string")
		nCall := 0
		for _, ct := range ctors {
			for _, fi := range c.P.AllFuncs {
				if fi.Body() == nil {
					continue
				}
				info := fi.Info()
				var g *cfgx.Graph
				for _, call := range callsIn(fi, func(fn *types.Func, _ *ast.CallExpr) bool { return fn == ct.fn.Obj }) {
					if ct.idx >= len(call.Args) {
						continue
					}
					nCall++
					if g == nil {
						g = c.Graph(fi)
					}
					arg := ast.Unparen(call.Args[ct.idx])
					nonEmpty := func(v int) bool {
						for _, f := range g.FactsAt(v) {
							if f.Tag != nil {
								continue
							}
							be, isBin := ast.Unparen(f.Expr).(*ast.BinaryExpr)
							if !isBin {
								continue
							}
							for _, pr := range [][2]ast.Expr{{be.X, be.Y}, {be.Y, be.X}} {
								if !astx.Same(info, pr[0], arg) {
									continue
								}
								if s, isC := astx.ConstString(info, pr[1]); isC && s == "" && ((be.Op == token.EQL && !f.Val) || (be.Op == token.NEQ && f.Val)) {
									return true
								}
							}
						}
						return false
					}
					v := g.VertexOf(call)
					ok := v >= 0 && nonEmpty(v)
					// … and what was tested is what is handed over: no assignment to it after the test
					if ok {
						for _, x := range g.Nodes() {
							as, isAs := x.Node.(*ast.AssignStmt)
							if !isAs {
								continue
							}
							for _, l := range as.Lhs {
								if astx.Same(info, l, arg) && nonEmpty(x.ID) {
									ok = false
								}
							}
						}
					}
					r.Check(ok, "C11.H4", fi.Name(), "the node does not serve with an empty network password", c.P.Pos(call.Pos()), astx.Str(arg)+" != \"\" holds where "+shortName(ct.fn)+" is called",
						"the HTTP API is set up with a password that was not tested to be non-empty ("+astx.Str(arg)+"): with an empty password the admin gate accepts the credentials robustirc:<nothing>")
				}
			}
		}
		r.Check(nCall > 0, "C11.H4", "main.main", "the API is constructed with the configured password", "-", "found", "no call of the API constructor found")
	}

	// ---------- H5
	for _, fi := range c.P.AllFuncs {
		if fi.Body() == nil {
			continue
		}
		info := fi.Info()
		inTool := strings.Contains(fi.Pkg.PkgPath, "/cmd/") || strings.HasSuffix(fi.Pkg.PkgPath, "/localnet")
		ast.Inspect(fi.Body(), func(n ast.Node) bool {
			switch x := n.(type) {
			case *ast.CallExpr:
				fn := astx.Callee(info, x)
				if fn == nil {
					return true
				}
				// calls of handler-shaped methods
				if cal := c.P.FuncOf(fn); cal != nil && handlerShaped(cal) {
					switch {
					case cal == privNA:
						r.Check(fi == priv, "C11.H5", fi.Name(), "calls DispatchPrivateWithoutAuth", c.P.Pos(x.Pos()), "only DispatchPrivate may", "DispatchPrivateWithoutAuth is called from outside the password gate")
					case cal == pub || cal == priv:
						r.Fail("C11.H5", fi.Name(), "calls dispatcher "+cal.Name(), c.P.Pos(x.Pos()), "a dispatcher is invoked directly")
					default:
						okCaller := fi == pub || fi == privNA || (handlerShaped(fi) && fi != priv)
						r.Check(okCaller, "C11.H5", fi.Name(), "calls handler "+shortName(cal), c.P.Pos(x.Pos()), "called from a dispatcher (or another handler)", "an HTTP handler is invoked from outside the dispatchers: the route is not covered by the gates")
					}
				}
				// registrations
				if fn.Pkg() != nil && fn.Pkg().Path() == "net/http" && (fname(fn) == "HandleFunc" || fname(fn) == "Handle") && !inTool {
					okReg := false
					if len(x.Args) == 2 {
						if se, ok := ast.Unparen(x.Args[1]).(*ast.SelectorExpr); ok {
							if sel, ok := info.Selections[se]; ok {
								if m, ok := sel.Obj().(*types.Func); ok && (m == pub.Obj || m == priv.Obj) {
									okReg = true
								}
							}
						}
					}
					r.Check(okReg, "C11.H5", fi.Name(), "registers "+astx.Str(x.Args[0]), c.P.Pos(x.Pos()), "one of the two gated dispatchers", "an HTTP route is registered that does not go through DispatchPublic/DispatchPrivate")
				}
				if fn.Pkg() != nil && fn.Pkg().Path() == "github.com/robustirc/rafthttp" && fname(fn) == "ServeHTTP" {
					r.Check(fi == privNA, "C11.H5", fi.Name(), "serves the raft transport", c.P.Pos(x.Pos()), "inside the password gate", "the raft transport is served outside the admin gate")
				}
			case *ast.SelectorExpr:
				// method values of handler-shaped methods (not in call position) other than the two registrations
				sel, ok := info.Selections[x]
				if !ok || (sel.Kind() != types.MethodVal && sel.Kind() != types.MethodExpr) {
					return true
				}
				m, _ := sel.Obj().(*types.Func)
				cal := c.P.FuncOf(m)
				if cal == nil || !handlerShaped(cal) {
					return true
				}
				// is this selector the Fun of a call?
				isCallee := false
				ast.Inspect(fi.Body(), func(k ast.Node) bool {
					if ce, ok := k.(*ast.CallExpr); ok && ast.Unparen(ce.Fun) == ast.Expr(x) {
						isCallee = true
					}
					return !isCallee
				})
				if !isCallee && cal != pub && cal != priv {
					r.Fail("C11.H5", fi.Name(), "takes handler "+shortName(cal)+" as a value", c.P.Pos(x.Pos()), "a handler is turned into a function value: it can be registered or called around the gates")
				}
			}
			return true
		})
	}
	// route tables: a package-level variable that holds handlers may be used by the dispatchers (and handlers) only
	tabs := c.funcTables()
	routeTable := func(v *types.Var) bool {
		for _, cal := range tabs[v] {
			if handlerShaped(cal) {
				return true
			}
		}
		return false
	}
	for _, fi := range c.P.AllFuncs {
		if fi.Body() == nil {
			continue
		}
		info := fi.Info()
		seenTab := map[*types.Var]bool{}
		ast.Inspect(fi.Body(), func(n ast.Node) bool {
			id, ok := n.(*ast.Ident)
			if !ok {
				return true
			}
			v, ok := info.Uses[id].(*types.Var)
			if !ok || seenTab[v] || !routeTable(v) {
				return true
			}
			seenTab[v] = true
			okUser := fi == pub || fi == privNA || (handlerShaped(fi) && fi != priv)
			r.Check(okUser, "C11.H5", fi.Name(), "uses route table "+v.Name(), c.P.Pos(id.Pos()), "used by a dispatcher (or a handler) only",
				"a table of HTTP handlers is used from outside the dispatchers: its routes can be called or changed around the gates")
			return true
		})
	}
	r.Floor("C11.H5", 15)
	// private handlers (the routes DispatchPrivateWithoutAuth dispatches to directly) are not reachable from DispatchPublic
	nPriv := 0
	for _, call := range astx.Calls(privNA.Body(), true) {
		fn := astx.Callee(privNA.Info(), call)
		cal := c.P.FuncOf(fn)
		if cal == nil || !handlerShaped(cal) {
			continue
		}
		nPriv++
		r.Check(!pubReach[cal], "C11.H5", pub.Name(), "private route "+shortName(cal)+" not reachable publicly", c.P.Pos(call.Pos()), "not in DispatchPublic's call closure", "an admin route is reachable from DispatchPublic, i.e. without the network password")
	}
	for _, cal := range c.tableCallees(privNA) {
		if !handlerShaped(cal) {
			continue
		}
		nPriv++
		r.Check(!pubReach[cal], "C11.H5", pub.Name(), "private route "+shortName(cal)+" not reachable publicly", c.P.Pos(cal.Node().Pos()), "not in DispatchPublic's call closure", "an admin route is reachable from DispatchPublic, i.e. without the network password")
	}
	r.Check(nPriv >= 10, "C11.H5", privNA.Name(), "private routes enumerated", c.P.Pos(privNA.Node().Pos()), "found", "fewer private routes than expected (vacuity guard)")
	_ = privReach
}

// sessionSensitiveParam reports whether parameter #idx of an api function (a robust.Id) is used, directly or
// through further api calls, to reach session state: as argument of an IRCServer method, as Session of a
// proposed robust.Message, or as index into InterestingFor.
func (c *Ctx) sessionSensitiveParam(fi *load.FuncInfo, idx int, seen map[*load.FuncInfo]bool) bool {
	if fi == nil || fi.Body() == nil || seen[fi] {
		return false
	}
	seen[fi] = true
	info := fi.Info()
	var param types.Object
	k := 0
	for _, fld := range fi.FuncType().Params.List {
		for _, nm := range fld.Names {
			if k == idx {
				param = info.Defs[nm]
			}
			k++
		}
	}
	if param == nil {
		return false
	}
	sensitive := false
	isParam := func(e ast.Expr) bool {
		id := astx.BaseIdent(e)
		return id != nil && astx.Obj(info, id) == param
	}
	ast.Inspect(fi.Body(), func(n ast.Node) bool {
		switch x := n.(type) {
		case *ast.CallExpr:
			fn := astx.Callee(info, x)
			if fn == nil {
				return true
			}
			isIRC := astx.RecvNamed(fn) != nil && astx.RecvNamed(fn).Obj().Name() == "IRCServer"
			callee := c.P.FuncOf(fn)
			for ai, a := range x.Args {
				if !isParam(a) {
					continue
				}
				if isIRC {
					sensitive = true
				} else if callee != nil && callee.Pkg.PkgPath == pathAPI && c.sessionSensitiveParam(callee, ai, seen) {
					sensitive = true
				}
			}
		case *ast.CompositeLit:
			if tv, ok := info.Types[x]; ok && astx.IsNamed(tv.Type, pathRobust, "Message") {
				if s := litField(x, "Session"); s != nil && isParam(s) {
					sensitive = true
				}
			}
		case *ast.IndexExpr:
			if se, ok := ast.Unparen(x.X).(*ast.SelectorExpr); ok && se.Sel.Name == "InterestingFor" && isParam(x.Index) {
				sensitive = true
			}
		}
		return !sensitive
	})
	return sensitive
}

// eqPairs returns pairs of expressions the fact proves equal: a == b (true), a != b (false),
// subtle.ConstantTimeCompare([]byte(a), []byte(b)) == 1, and (x & y) == 1 over such results.
func eqPairs(info *types.Info, root ast.Node, f cfgx.Fact) [][2]ast.Expr {
	if f.Tag != nil {
		return nil
	}
	strip := func(e ast.Expr) ast.Expr {
		e = ast.Unparen(e)
		if call, ok := e.(*ast.CallExpr); ok && astx.IsConversion(info, call) && len(call.Args) == 1 {
			return ast.Unparen(call.Args[0])
		}
		return e
	}
	var ctc func(e ast.Expr, depth int) [][2]ast.Expr // e evaluates to 1 => these pairs are equal
	ctc = func(e ast.Expr, depth int) [][2]ast.Expr {
		e = ast.Unparen(e)
		if depth > 3 {
			return nil
		}
		if call, ok := e.(*ast.CallExpr); ok && len(call.Args) == 2 {
			if fn := astx.Callee(info, call); fn != nil && isFunc(fn, "crypto/subtle", "ConstantTimeCompare") {
				return [][2]ast.Expr{{strip(call.Args[0]), strip(call.Args[1])}}
			}
		}
		if be, ok := e.(*ast.BinaryExpr); ok && be.Op == token.AND {
			a, b := ctc(be.X, depth+1), ctc(be.Y, depth+1)
			if a != nil && b != nil {
				return append(a, b...)
			}
			return nil
		}
		if id, ok := e.(*ast.Ident); ok {
			if d := uniqueDef(info, root, id); d != nil {
				return ctc(d, depth+1)
			}
		}
		return nil
	}
	be, ok := ast.Unparen(f.Expr).(*ast.BinaryExpr)
	if !ok || (be.Op != token.EQL && be.Op != token.NEQ) {
		return nil
	}
	equal := (be.Op == token.EQL) == f.Val
	one := func(e ast.Expr) bool { v, ok := astx.ConstInt(info, e); return ok && v == 1 }
	if equal {
		if one(be.Y) {
			if p := ctc(be.X, 0); p != nil {
				return p
			}
		}
		if one(be.X) {
			if p := ctc(be.Y, 0); p != nil {
				return p
			}
		}
		return [][2]ast.Expr{{be.X, be.Y}}
	}
	return nil
}

// c11DefaultMux (H5): routes registered as an import side effect. Every package in the program's import closure whose
// init (or package-level code) registers handlers on http.DefaultServeMux — net/http/pprof, expvar — adds routes that the
// two dispatchers never see. Therefore: the server that main starts does not serve the default mux, the only registrations
// on its own mux are the two dispatchers (checked in the main loop of H5), and the module touches http.DefaultServeMux
// only inside DispatchPrivateWithoutAuth, i.e. behind the password.
func (c *Ctx) c11DefaultMux() {
	r := c.R
	mainFn := c.MustFunc("main.main")
	privNA := c.P.Func("api.(*HTTP).DispatchPrivateWithoutAuth")
	if mainFn == nil {
		return
	}
	// side-effect registrars in the import closure
	var registrars []string
	for path, pkg := range c.P.All {
		if strings.HasPrefix(path, load.ModPath) {
			continue
		}
		found := false
		for _, f := range pkg.Syntax {
			for _, d := range f.Decls {
				fd, ok := d.(*ast.FuncDecl)
				if !ok || fd.Name.Name != "init" || fd.Recv != nil || fd.Body == nil {
					continue
				}
				ast.Inspect(fd.Body, func(n ast.Node) bool {
					call, ok := n.(*ast.CallExpr)
					if !ok {
						return true
					}
					if fn := astx.Callee(pkg.TypesInfo, call); fn != nil && fn.Pkg() != nil && fn.Pkg().Path() == "net/http" && (fn.FullName() == "net/http.HandleFunc" || fn.FullName() == "net/http.Handle") {
						found = true
					}
					return true
				})
			}
		}
		if found {
			registrars = append(registrars, path)
		}
	}
	sort.Strings(registrars)
	info := mainFn.Info()
	// the server literal(s) in main
	nSrv := 0
	for _, cl := range compositeLitsOf(info, mainFn.Body(), "net/http", "Server") {
		nSrv++
		h := litField(cl, "Handler")
		okOwn := false
		if h != nil && !isNilIdent(info, h) && !refersTo(info, h, "net/http", "DefaultServeMux") {
			// a mux created in main
			if d := uniqueDef(info, mainFn.Node(), h); d != nil {
				if call, ok := ast.Unparen(d).(*ast.CallExpr); ok {
					if fn := astx.Callee(info, call); fn != nil && fn.FullName() == "net/http.NewServeMux" {
						okOwn = true
					}
				}
			}
		}
		if len(registrars) == 0 {
			r.Ok("C11.H5", mainFn.Name(), "no dependency registers routes behind the dispatchers' back", c.P.Pos(cl.Pos()), "no init() in the import closure calls http.Handle/HandleFunc")
			continue
		}
		r.Check(okOwn, "C11.H5", mainFn.Name(), "the server serves its own mux, not http.DefaultServeMux", c.P.Pos(cl.Pos()), "http.Server{Handler: <http.NewServeMux()>}; side-effect registrars in the import closure: "+strings.Join(registrars, ", "),
			"main serves http.DefaultServeMux while "+strings.Join(registrars, ", ")+" register(s) handlers on it as an import side effect: those routes (e.g. /debug/pprof/cmdline, which shows the command line including -network_password) answer without the network password")
	}
	r.Check(nSrv >= 1, "C11.H5", mainFn.Name(), "http.Server literal found", c.P.Pos(mainFn.Node().Pos()), itoa(nSrv), "main no longer builds an http.Server literal: how the mux is served was not recognised")
	// registrations go to that mux, not to the package-level default
	for _, call := range astx.Calls(mainFn.Body(), true) {
		if fn := astx.Callee(info, call); fn != nil && (fn.FullName() == "net/http.HandleFunc" || fn.FullName() == "net/http.Handle") && len(registrars) > 0 {
			r.Fail("C11.H5", mainFn.Name(), "registers "+astx.Str(call.Args[0])+" on http.DefaultServeMux", c.P.Pos(call.Pos()), "routes are registered on the default mux, which also carries the handlers of "+strings.Join(registrars, ", "))
		}
	}
	// the default mux is only ever served from behind the password
	for _, fi := range c.P.AllFuncs {
		if fi.Body() == nil || !strings.HasPrefix(fi.Pkg.PkgPath, load.ModPath) {
			continue
		}
		fin := fi.Info()
		ast.Inspect(fi.Body(), func(n ast.Node) bool {
			se, ok := n.(*ast.SelectorExpr)
			if !ok || !refersTo(fin, se, "net/http", "DefaultServeMux") {
				return true
			}
			r.Check(fi == privNA, "C11.H5", fi.Name(), "uses http.DefaultServeMux", c.P.Pos(se.Pos()), "only inside DispatchPrivateWithoutAuth (behind the network password)",
				"http.DefaultServeMux (which carries handlers registered by imported packages) is served from code that is not behind the admin gate")
			return false
		})
	}
}
