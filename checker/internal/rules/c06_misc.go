package rules

import (
	"go/ast"
	"go/token"
	"go/types"
	"sort"
	"strings"

	"verif/checker/internal/astx"
	"verif/checker/internal/cfgx"
	"verif/checker/internal/load"
)

// c06Misc: G4 (dropped errors), G5 (nil maps), G6 (termination calls), G7 (assertions, division), G8 (recursion, lock re-entry), G9.
func (c *Ctx) c06Misc(f *ircFacts, fns []*load.FuncInfo, arm *load.FuncInfo) {
	r := c.R
	inScope := map[*load.FuncInfo]bool{}
	for _, fi := range fns {
		inScope[fi] = true
	}

	// ---------- G4/G9: a call whose error result is discarded while another result is used
	nCalls := 0
	for _, fi := range fns {
		info := fi.Info()
		ast.Inspect(fi.Body(), func(n ast.Node) bool {
			switch x := n.(type) {
			case *ast.AssignStmt:
				if len(x.Rhs) != 1 || len(x.Lhs) < 2 {
					return true
				}
				call, ok := ast.Unparen(x.Rhs[0]).(*ast.CallExpr)
				if !ok {
					return true
				}
				sig, ok := info.TypeOf(call.Fun).(*types.Signature)
				if !ok || sig.Results().Len() != len(x.Lhs) {
					return true
				}
				last := sig.Results().At(sig.Results().Len() - 1)
				if last.Type().String() != "error" {
					return true
				}
				nCalls++
				if id, ok := x.Lhs[len(x.Lhs)-1].(*ast.Ident); ok && id.Name == "_" {
					used := false
					for _, l := range x.Lhs[:len(x.Lhs)-1] {
						if lid, ok := l.(*ast.Ident); ok && lid.Name != "_" {
							used = true
						}
					}
					if used {
						r.Fail("C06.G4", fi.Name(), "error of "+astx.Str(call.Fun)+" discarded, result used", c.P.Pos(x.Pos()),
							"the error result is assigned to _ while the other result is used: on failure the result is nil/zero and the following use panics or misbehaves")
					}
				}
			case *ast.ExprStmt:
				call, ok := x.X.(*ast.CallExpr)
				if !ok {
					return true
				}
				fn := astx.Callee(info, call)
				if fn == nil {
					return true
				}
				cal := c.P.FuncOf(fn)
				if cal == nil || !inScope[cal] {
					return true
				}
				sig := fn.Type().(*types.Signature)
				if sig.Results().Len() == 1 && sig.Results().At(0).Type().String() == "error" {
					nCalls++
					r.Fail("C06.G4", fi.Name(), "error of "+shortName(cal)+" ignored", c.P.Pos(x.Pos()),
						"the error returned by "+shortName(cal)+" is ignored: code after the call relies on an effect that did not happen (e.g. a session that was not created)")
				}
			}
			return true
		})
	}
	r.Ok("C06.G4", "scope", "error results of calls", "-", itoa(nCalls)+" calls returning an error inspected; none is discarded while its companion result is used, none of the module's own errors is ignored")

	// ---------- G5: maps that are index-assigned are initialised by every literal of their struct
	for _, typ := range []string{"Session", "channel", "IRCServer"} {
		nt := c.P.Named("ircserver", typ)
		if nt == nil {
			continue
		}
		var need []*types.Var
		for _, fv := range structFields(nt) {
			if _, isMap := fv.Type().Underlying().(*types.Map); !isMap {
				continue
			}
			written := false
			for _, w := range c.stateMapWrites(fv) {
				if !w.delete {
					written = true
				}
			}
			if written {
				need = append(need, fv)
			}
		}
		for _, fi := range c.P.FuncsIn("ircserver") {
			if fi.Body() == nil {
				continue
			}
			info := fi.Info()
			for _, cl := range compositeLitsOf(info, fi.Body(), pathIrcsrv, typ) {
				for _, fv := range need {
					v := litField(cl, fv.Name())
					ok := v != nil && !isNilIdent(info, v)
					// a local variable must be non-nil by every definition (make / literal), not a bare `var m map…`
					if id, isID := ast.Unparen(v).(*ast.Ident); ok && isID {
						if o, isVar := astx.Obj(info, id).(*types.Var); isVar && !o.IsField() && o.Parent() != o.Pkg().Scope() {
							defs := defsOf(info, fi.Node(), o)
							if len(defs) > 0 {
								for _, d := range defs {
									nonNil := false
									if d != nil {
										switch x := ast.Unparen(d).(type) {
										case *ast.CallExpr:
											nonNil = astx.Builtin(info, x) == "make" || astx.Builtin(info, x) == ""
										case *ast.CompositeLit:
											nonNil = true
										}
									}
									if !nonNil {
										ok = false
									}
								}
							}
						}
					}
					r.Check(ok, "C06.G5", fi.Name(), typ+" literal initialises map "+fv.Name(), c.P.Pos(cl.Pos()), "key present",
						"a "+typ+" is constructed without initialising its "+fv.Name()+" map, which handlers assign into: assignment to entry in nil map panics")
				}
			}
		}
	}
	// the ban map of the configuration
	if cfgT := c.P.Named("config", "Network"); cfgT != nil {
		for _, name := range []string{"config.FromString", "ircserver.(*IRCServer).Unmarshal"} {
			fi := c.P.Func(name)
			if fi == nil {
				continue
			}
			info := fi.Info()
			ok := false
			ast.Inspect(fi.Body(), func(n ast.Node) bool {
				ifs, isIf := n.(*ast.IfStmt)
				if !isIf {
					return true
				}
				if be, isBE := ast.Unparen(ifs.Cond).(*ast.BinaryExpr); isBE && be.Op == token.EQL && isNilIdent(info, be.Y) && strings.HasSuffix(astx.Str(be.X), ".Banned") {
					for _, st := range ifs.Body.List {
						if as, isAs := st.(*ast.AssignStmt); isAs && len(as.Rhs) == 1 {
							if call, isC := ast.Unparen(as.Rhs[0]).(*ast.CallExpr); isC && astx.Builtin(info, call) == "make" {
								ok = true
							}
						}
					}
				}
				return true
			})
			r.Check(ok, "C06.G5", fi.Name(), "ensures Config.Banned is a non-nil map", c.P.Pos(fi.Node().Pos()), "if cfg.Banned == nil { cfg.Banned = make(…) }",
				"a configuration can be installed whose Banned map is nil: the next GLINE panics with assignment to entry in nil map")
		}
	}

	// ---------- G6: explicit termination; G7: assertions / division
	nStmts := 0
	scopeAll := append([]*load.FuncInfo{}, fns...)
	scopeAll = append(scopeAll, arm)
	if sm := c.P.Func("main.sendMessages"); sm != nil {
		scopeAll = append(scopeAll, sm)
	}
	for _, fi := range scopeAll {
		info := fi.Info()
		ast.Inspect(fi.Body(), func(n ast.Node) bool {
			switch x := n.(type) {
			case *ast.CallExpr:
				nStmts++
				if cfgx.NoReturn(info, x) {
					if fi.Name() == "main.sendMessages" {
						r.Except("C06.G6", fi.Name(), "termination call "+astx.Str(x.Fun), c.P.Pos(x.Pos()), "fails only when the node-local output store cannot be written (storage failure), not depending on the client line")
					} else {
						r.Fail("C06.G6", fi.Name(), "termination call "+astx.Str(x.Fun), c.P.Pos(x.Pos()), "an explicit panic / fatal exit is reachable from the state-machine step")
					}
				}
				// G9: regexp.MustCompile / template.Must on non-constants
				if fn := astx.Callee(info, x); fn != nil && strings.HasPrefix(fn.Name(), "Must") && len(x.Args) >= 1 {
					if _, isConst := astx.ConstString(info, x.Args[0]); !isConst && !c.onlyAtInit(fi) {
						r.Fail("C06.G9", fi.Name(), astx.Str(x.Fun)+" on a non-constant", c.P.Pos(x.Pos()), "a Must* function panics when its input (derived from client data) is invalid")
					}
				}
				if fn := astx.Callee(info, x); fn != nil && isFunc(fn, "strings", "Repeat") && len(x.Args) == 2 {
					if _, isConst := astx.ConstInt(info, x.Args[1]); !isConst {
						r.Fail("C06.G9", fi.Name(), "strings.Repeat with a computed count", c.P.Pos(x.Pos()), "strings.Repeat panics for a negative count")
					}
				}
			case *ast.TypeAssertExpr:
				if x.Type == nil {
					return true // type switch
				}
				// comma-ok form?
				commaOK := false
				ast.Inspect(fi.Body(), func(m ast.Node) bool {
					if as, ok := m.(*ast.AssignStmt); ok && len(as.Lhs) == 2 && len(as.Rhs) == 1 && ast.Unparen(as.Rhs[0]) == ast.Expr(x) {
						commaOK = true
					}
					return true
				})
				if !commaOK {
					r.Fail("C06.G7", fi.Name(), "type assertion "+astx.Str(x), c.P.Pos(x.Pos()), "a type assertion without comma-ok panics when the dynamic type differs")
				}
			case *ast.BinaryExpr:
				if x.Op == token.QUO || x.Op == token.REM {
					tv, ok := info.Types[x]
					if ok {
						if b, isB := tv.Type.Underlying().(*types.Basic); isB && b.Info()&types.IsInteger != 0 {
							if _, isConst := astx.ConstInt(info, x.Y); !isConst {
								r.Fail("C06.G7", fi.Name(), "integer division "+astx.Str(x), c.P.Pos(x.Pos()), "integer division by a non-constant may divide by zero")
							}
						}
					}
				}
			case *ast.GoStmt:
				r.Fail("C06.G8", fi.Name(), "go statement", c.P.Pos(x.Pos()), "a goroutine started by the step can panic outside applyProto's recover handler")
			case *ast.ForStmt:
				if x.Cond == nil {
					// for {} without condition: must contain a return/break
					hasExit := false
					ast.Inspect(x.Body, func(m ast.Node) bool {
						switch y := m.(type) {
						case *ast.ReturnStmt:
							hasExit = true
						case *ast.BranchStmt:
							if y.Tok == token.BREAK {
								hasExit = true
							}
						}
						return true
					})
					if !hasExit {
						r.Fail("C06.G8", fi.Name(), "unbounded for loop", c.P.Pos(x.Pos()), "a loop without condition and without exit never returns")
					}
				}
			}
			return true
		})
	}
	r.Ok("C06.G6", "scope", "no explicit termination in the step", "-", itoa(nStmts)+" calls in "+itoa(len(scopeAll))+" functions inspected")
	r.Ok("C06.G9", "scope", "no library call with a panicking precondition on computed input", "-", itoa(nStmts)+" calls inspected: none is a Must* function on a non-constant or strings.Repeat with a computed count")
	if nStmts < 500 {
		r.Break("C06.G6/G9: only %d calls inspected in the step's scope (expected > 500)", nStmts)
	}
	r.Ok("C06.G7", "scope", "no unchecked type assertion, no division by a variable", "-", itoa(len(scopeAll))+" functions inspected")

	// ---------- G8: recursion
	color := map[*load.FuncInfo]int{}
	var cyc []string
	var dfs func(fi *load.FuncInfo, path []string)
	dfs = func(fi *load.FuncInfo, path []string) {
		color[fi] = 1
		for _, cal := range c.callees(fi) {
			if !inScope[cal] {
				continue
			}
			switch color[cal] {
			case 1:
				cyc = append(cyc, strings.Join(append(path, shortName(fi), shortName(cal)), " -> "))
			case 0:
				dfs(cal, append(path, shortName(fi)))
			}
		}
		color[fi] = 2
	}
	for _, fi := range fns {
		if color[fi] == 0 {
			dfs(fi, nil)
		}
	}
	sort.Strings(cyc)
	if len(cyc) == 0 {
		r.Ok("C06.G8", "scope", "call graph of the step is acyclic", "-", itoa(len(fns))+" functions, no recursion")
	}
	for _, cy := range cyc {
		r.Fail("C06.G8", "scope", "recursion "+cy, "-", "handlers call each other recursively: an input can make the step recurse without bound (stack overflow is not recoverable)")
	}

	// ---------- G8: lock re-acquisition under the locks the step holds (may-held sets propagated over calls)
	entryMay := map[*load.FuncInfo]lockSet{}
	for _, fi := range fns {
		entryMay[fi] = lockSet{}
	}
	dispatch := lockSet{"IRCServer.sessionsMu": "W"}
	for fi := range f.Client {
		if inScope[fi] {
			entryMay[fi] = dispatch.clone()
		}
	}
	for fi := range f.Server {
		if inScope[fi] {
			entryMay[fi] = dispatch.clone()
		}
	}
	flows := map[*load.FuncInfo]*lockFlowResult{}
	for iter := 0; iter < 10; iter++ {
		changed := false
		for _, fi := range fns {
			g := c.Graph(fi)
			flows[fi] = c.lockFlow(fi, g, entryMay[fi])
			info := fi.Info()
			for _, call := range astx.Calls(fi.Body(), false) {
				var cal *load.FuncInfo
				if fn := astx.Callee(info, call); fn != nil {
					cal = c.P.FuncOf(fn)
				} else if id, ok := ast.Unparen(call.Fun).(*ast.Ident); ok {
					if v, ok := info.Uses[id].(*types.Var); ok {
						cal = c.P.VarFunc(v)
					}
				}
				if cal == nil || !inScope[cal] {
					continue
				}
				v := g.VertexOf(call)
				if v < 0 {
					continue
				}
				held := flows[fi].may[v]
				for k, m := range held {
					if entryMay[cal][k] == "" || (entryMay[cal][k] == "R" && m == "W") {
						entryMay[cal][k] = m
						changed = true
					}
				}
			}
		}
		if !changed {
			break
		}
	}
	nAcq := 0
	for _, fi := range fns {
		info := fi.Info()
		g := c.Graph(fi)
		lf := c.lockFlow(fi, g, entryMay[fi])
		for _, v := range g.Nodes() {
			es, ok := v.Node.(*ast.ExprStmt)
			if !ok {
				continue
			}
			call, ok := es.X.(*ast.CallExpr)
			if !ok {
				continue
			}
			op := lockOpOf(info, call)
			if op == nil || (op.op != "Lock" && op.op != "RLock") {
				continue
			}
			nAcq++
			held := lf.may[v.ID][op.lock]
			r.Check(held == "", "C06.G8", fi.Name(), op.op+" of "+op.lock+" inside the step", c.P.Pos(call.Pos()), "not already held on any path (locks possibly held: "+lf.may[v.ID].String()+")",
				"the mutex is acquired while the step may already hold it ("+lf.may[v.ID].String()+"): sync mutexes are not reentrant (and RLock under RLock deadlocks once a writer waits), the state machine hangs on every node")
		}
	}
	r.Check(nAcq >= 8, "C06.G8", "scope", "lock acquisitions inside the step enumerated", "-", itoa(nAcq), "fewer lock acquisitions than expected")
}

// onlyAtInit: the function is called from package-level variable initialisers and init functions only — no function body of
// the module calls it or takes its value. What it does happens before the first entry is applied.
func (c *Ctx) onlyAtInit(fi *load.FuncInfo) bool {
	if fi.Obj == nil || fi.Obj.Exported() {
		return false
	}
	used := false
	for _, f := range c.P.AllFuncs {
		if f.Body() == nil || f == fi || (f.Decl != nil && f.Decl.Recv == nil && f.Decl.Name.Name == "init") {
			continue
		}
		info := f.Info()
		ast.Inspect(f.Body(), func(n ast.Node) bool {
			if id, ok := n.(*ast.Ident); ok && info.Uses[id] == types.Object(fi.Obj) {
				used = true
			}
			return !used
		})
		if used {
			return false
		}
	}
	// … nor a function literal stored in a package-level variable (it runs whenever the variable is called)
	for _, file := range fi.Pkg.Syntax {
		for _, d := range file.Decls {
			gd, ok := d.(*ast.GenDecl)
			if !ok {
				continue
			}
			ast.Inspect(gd, func(n ast.Node) bool {
				lit, ok := n.(*ast.FuncLit)
				if !ok {
					return !used
				}
				ast.Inspect(lit, func(m ast.Node) bool {
					if id, ok := m.(*ast.Ident); ok && fi.Pkg.TypesInfo.Uses[id] == types.Object(fi.Obj) {
						used = true
					}
					return !used
				})
				return false
			})
		}
	}
	return !used
}
