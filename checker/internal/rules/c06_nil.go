package rules

import (
	"go/ast"
	"go/token"
	"go/types"
	"strings"

	"verif/checker/internal/astx"
	"verif/checker/internal/cfgx"
	"verif/checker/internal/load"
)

// nilCtx evaluates "this expression is non-nil here" for the pointer types that carry state or parsed input.
type nilCtx struct {
	c          *Ctx
	f          *ircFacts
	scope      map[*load.FuncInfo]bool
	serverOnly func(*load.FuncInfo) bool
	callSites  map[*load.FuncInfo][]nilCallSite
	paramMemo  map[types.Object]int // 0 unknown, 1 non-nil, 2 maybe nil, 3 in progress
	paramWhy   map[types.Object]string
	arm        *load.FuncInfo
}

type nilCallSite struct {
	caller *load.FuncInfo
	call   *ast.CallExpr
}

func trackedPtr(t types.Type) bool {
	p, ok := t.Underlying().(*types.Pointer)
	if !ok {
		if pp, ok2 := t.(*types.Pointer); ok2 {
			p = pp
		} else {
			return false
		}
	}
	switch e := p.Elem().(type) {
	case *types.Named:
		n := e.Obj().Name()
		pk := ""
		if e.Obj().Pkg() != nil {
			pk = e.Obj().Pkg().Path()
		}
		switch {
		case pk == pathIrcsrv && (n == "Session" || n == "channel" || n == "ircCommand"):
			return true
		case pk == pathIRC && (n == "Message" || n == "Prefix"):
			return true
		case pk == "net/url" && n == "URL":
			return true
		}
	case *types.Array:
		return true
	}
	return false
}

// stateMapOf: e is <x>.<field> with field one of the pointer-valued state maps.
func (nc *nilCtx) stateMapOf(info *types.Info, e ast.Expr) *types.Var {
	se, ok := ast.Unparen(e).(*ast.SelectorExpr)
	if !ok {
		return nil
	}
	fv := astx.FieldSel(info, se)
	switch fv {
	case nc.f.fSessions, nc.f.fNicks, nc.f.fChannels, nc.f.fCNicks:
		return fv
	}
	return nil
}

func isLcOf(info *types.Info, e ast.Expr, fname string) ast.Expr {
	call, ok := ast.Unparen(e).(*ast.CallExpr)
	if !ok || len(call.Args) != 1 {
		return nil
	}
	if fn := astx.Callee(info, call); fn != nil && fn.Name() == fname {
		return call.Args[0]
	}
	return nil
}

// keyJustified: the look-up M[K] (M a pointer-valued state map) cannot yield nil at vertex v.
func (nc *nilCtx) keyJustified(fi *load.FuncInfo, g *cfgx.Graph, mexpr ast.Expr, key ast.Expr, v int) (bool, string) {
	info := fi.Info()
	f := nc.f
	mfield := nc.stateMapOf(info, mexpr)
	if mfield == nil {
		return false, ""
	}
	mrecv := ast.Unparen(mexpr).(*ast.SelectorExpr).X
	facts := g.FactsAt(v)
	resolve := func(e ast.Expr) ast.Expr {
		if d := uniqueDef(info, fi.Node(), e); d != nil {
			return d
		}
		return e
	}
	sameKey := func(a, b ast.Expr) bool {
		return astx.Same(info, a, b) || astx.Same(info, resolve(a), resolve(b)) || astx.Same(info, resolve(a), b) || astx.Same(info, a, resolve(b))
	}
	// J-ok: a dominating successful comma-ok look-up on the same map and key
	for _, fct := range facts {
		if fct.Tag != nil || !fct.Val {
			continue
		}
		id, ok := ast.Unparen(fct.Expr).(*ast.Ident)
		if !ok {
			continue
		}
		for _, d := range defsOf(info, fi.Node(), astx.Obj(info, id)) {
			ie, ok := ast.Unparen(d).(*ast.IndexExpr)
			if d == nil || !ok {
				continue
			}
			if nc.stateMapOf(info, ie.X) == mfield && astx.Same(info, ast.Unparen(ie.X).(*ast.SelectorExpr).X, mrecv) && sameKey(ie.Index, key) {
				return true, "J-ok: dominating successful look-up of the same key"
			}
			// J-registered (I2): nick ∈ c.nicks ⇒ i.nicks[nick] ≠ nil
			if mfield == f.fNicks && nc.stateMapOf(info, ie.X) == f.fCNicks && sameKey(ie.Index, key) {
				return true, "J-registered (I2): the key was found in a channel's member list"
			}
		}
	}
	// J-store: dominated by a store under the same key
	for _, vv := range g.Nodes() {
		as, ok := vv.Node.(*ast.AssignStmt)
		if !ok {
			continue
		}
		for _, l := range as.Lhs {
			ie, ok := ast.Unparen(l).(*ast.IndexExpr)
			if !ok || nc.stateMapOf(info, ie.X) != mfield || !sameKey(ie.Index, key) {
				continue
			}
			if !astx.Same(info, ast.Unparen(ie.X).(*ast.SelectorExpr).X, mrecv) {
				continue
			}
			if vv.ID != v && g.DominatedBy(v, func(x *cfgx.Vertex) bool { return x.ID == vv.ID }) {
				return true, "J-store: dominated by a store under the same key"
			}
		}
	}
	// range keys
	rangeKeyOf := func(k ast.Expr) (*ast.RangeStmt, bool) {
		id, ok := ast.Unparen(k).(*ast.Ident)
		if !ok {
			return nil, false
		}
		o := astx.Obj(info, id)
		var found *ast.RangeStmt
		isKey := false
		ast.Inspect(fi.Body(), func(n ast.Node) bool {
			rs, ok := n.(*ast.RangeStmt)
			if !ok {
				return true
			}
			if kid, ok := rs.Key.(*ast.Ident); ok && rs.Key != nil && astx.Obj(info, kid) == o {
				found, isKey = rs, true
			}
			if rs.Value != nil {
				if vid, ok := rs.Value.(*ast.Ident); ok && astx.Obj(info, vid) == o {
					found, isKey = rs, false
				}
			}
			return true
		})
		return found, isKey
	}
	// provenance of a range value over a local slice: what was appended to it
	sliceProv := func(k ast.Expr) []ast.Expr {
		rs, isKey := rangeKeyOf(k)
		if rs == nil || isKey {
			return nil
		}
		sid, ok := ast.Unparen(rs.X).(*ast.Ident)
		if !ok {
			return nil
		}
		so := astx.Obj(info, sid)
		var elems []ast.Expr
		unknown := false
		ast.Inspect(fi.Body(), func(n ast.Node) bool {
			as, ok := n.(*ast.AssignStmt)
			if !ok || len(as.Lhs) != 1 || len(as.Rhs) != 1 {
				return true
			}
			l, ok := as.Lhs[0].(*ast.Ident)
			if !ok || astx.Obj(info, l) != so {
				return true
			}
			call, ok := ast.Unparen(as.Rhs[0]).(*ast.CallExpr)
			if !ok {
				unknown = true
				return true
			}
			switch astx.Builtin(info, call) {
			case "append":
				elems = append(elems, call.Args[1:]...)
			case "make":
			default:
				// strings.Split etc.: elements of unknown origin
				unknown = true
			}
			return true
		})
		if unknown {
			return nil
		}
		return elems
	}
	stripConv := func(e ast.Expr) ast.Expr {
		for {
			e = ast.Unparen(e)
			call, ok := e.(*ast.CallExpr)
			if ok && astx.IsConversion(info, call) && len(call.Args) == 1 {
				e = call.Args[0]
				continue
			}
			return e
		}
	}
	keyOfMap := func(e ast.Expr, field *types.Var) bool { // e is (a conversion of) a range key over <x>.field, or a key that passed a comma-ok on it
		e = stripConv(e)
		rs, isKey := rangeKeyOf(e)
		if rs != nil && isKey {
			if se, ok := ast.Unparen(rs.X).(*ast.SelectorExpr); ok && astx.FieldSel(info, se) == field {
				return true
			}
		}
		return false
	}
	k := stripConv(key)
	switch mfield {
	case f.fNicks:
		// J-registered: key ranges over some channel's member list
		if keyOfMap(k, f.fCNicks) {
			return true, "J-registered (I2): the key ranges over a channel's member list"
		}
		if keyOfMap(k, f.fNicks) {
			return true, "key ranges over the same map"
		}
		// elements of a local slice filled with keys of i.nicks or with the Nick of sessions found in i.nicks (I3)
		kk := k
		if a := isLcOf(info, kk, "NickToLower"); a != nil {
			kk = stripConv(a)
		}
		if elems := sliceProv(kk); len(elems) > 0 {
			all := true
			for _, e := range elems {
				e = stripConv(e)
				okE := keyOfMap(e, f.fNicks)
				// i.nicks[<justified>].Nick
				if se, ok := ast.Unparen(e).(*ast.SelectorExpr); ok && se.Sel.Name == "Nick" {
					if ie, ok := ast.Unparen(se.X).(*ast.IndexExpr); ok && nc.stateMapOf(info, ie.X) == f.fNicks {
						okE = true
					}
				}
				if !okE {
					all = false
				}
			}
			if all {
				return true, "J-selfkey (I3): the key is (the lower-cased nickname of) a session taken from the nickname index"
			}
		}
	case f.fChannels:
		// J-member (I1): key is a key of some session's Channels set
		if keyOfMap(k, f.fSChannels) || keyOfMap(k, f.fChannels) {
			return true, "J-member (I1): the key ranges over a session's Channels set / the channel map itself"
		}
		for _, fct := range facts {
			if fct.Tag != nil || !fct.Val {
				continue
			}
			if ie, ok := ast.Unparen(fct.Expr).(*ast.IndexExpr); ok {
				if se, ok := ast.Unparen(ie.X).(*ast.SelectorExpr); ok && astx.FieldSel(info, se) == f.fSChannels && sameKey(ie.Index, key) {
					return true, "J-member (I1): dominated by <session>.Channels[key]"
				}
			}
		}
		if elems := sliceProv(k); len(elems) > 0 {
			all := true
			for _, e := range elems {
				e = stripConv(e)
				if keyOfMap(e, f.fSChannels) || keyOfMap(e, f.fChannels) {
					continue
				}
				// appended under a successful comma-ok on i.channels with that key
				okE := false
				if id, ok := ast.Unparen(e).(*ast.Ident); ok {
					_ = id
					ast.Inspect(fi.Body(), func(n ast.Node) bool {
						ifs, ok := n.(*ast.IfStmt)
						if !ok || ifs.Init == nil || !(ifs.Body.Pos() <= e.Pos() && e.End() <= ifs.Body.End()) {
							return true
						}
						if as, ok := ifs.Init.(*ast.AssignStmt); ok && len(as.Rhs) == 1 {
							if ie, ok := ast.Unparen(as.Rhs[0]).(*ast.IndexExpr); ok && nc.stateMapOf(info, ie.X) == f.fChannels && astx.Same(info, ie.Index, e) {
								okE = true
							}
						}
						return true
					})
				}
				if !okE {
					all = false
				}
			}
			if all {
				return true, "the key is an element of a slice filled only with keys of the channel map / a session's Channels set"
			}
		}
	case f.fCNicks:
		// J-member (I1): c = i.channels[K2] and <session>.Channels[K2] holds (or K2 ranges over session.Channels), key = lc(session.Nick)
		if a := isLcOf(info, k, "NickToLower"); a != nil {
			if se, ok := ast.Unparen(a).(*ast.SelectorExpr); ok && se.Sel.Name == "Nick" {
				sess := se.X
				// channel expression: mrecv; its key
				var ck ast.Expr
				if ie, ok := ast.Unparen(mrecv).(*ast.IndexExpr); ok && nc.stateMapOf(info, ie.X) == f.fChannels {
					ck = ie.Index
				} else if id, ok := ast.Unparen(mrecv).(*ast.Ident); ok {
					for _, d := range defsOf(info, fi.Node(), astx.Obj(info, id)) {
						if ie, ok := ast.Unparen(d).(*ast.IndexExpr); d != nil && ok && nc.stateMapOf(info, ie.X) == f.fChannels {
							ck = ie.Index
						}
					}
				}
				if ck != nil {
					ckk := stripConv(ck)
					// ck ranges over sess.Channels (directly or through a slice of its keys)
					chk := func(e ast.Expr) bool {
						rs, isKey := rangeKeyOf(stripConv(e))
						if rs != nil && isKey {
							if s2, ok := ast.Unparen(rs.X).(*ast.SelectorExpr); ok && astx.FieldSel(info, s2) == f.fSChannels && astx.Same(info, s2.X, sess) {
								return true
							}
						}
						return false
					}
					if chk(ckk) {
						return true, "J-member (I1): the channel is one of the session's own Channels"
					}
					if elems := sliceProv(ckk); len(elems) > 0 {
						all := true
						for _, e := range elems {
							if !chk(e) {
								all = false
							}
						}
						if all {
							return true, "J-member (I1): the channel is one of the session's own Channels (via a sorted key slice)"
						}
					}
					for _, fct := range facts {
						if fct.Tag != nil || !fct.Val {
							continue
						}
						if ie, ok := ast.Unparen(fct.Expr).(*ast.IndexExpr); ok {
							if s2, ok := ast.Unparen(ie.X).(*ast.SelectorExpr); ok && astx.FieldSel(info, s2) == f.fSChannels && astx.Same(info, s2.X, sess) && sameKey(ie.Index, ck) {
								return true, "J-member (I1): dominated by <session>.Channels[<channel key>]"
							}
						}
					}
				}
			}
		}
	case f.fSessions:
		// J-callee-store: dominated by the nil-error edge of a call that stores sessions[<that argument>] before every nil return
		for _, vv := range g.Nodes() {
			for _, call := range astx.Calls(vv.Node, false) {
				fn := astx.Callee(info, call)
				if fn == nil {
					continue
				}
				cal := nc.c.P.FuncOf(fn)
				if cal == nil {
					continue
				}
				pi := nc.storesSessionParam(cal)
				if pi < 0 || pi >= len(call.Args) || !sameKey(call.Args[pi], key) {
					continue
				}
				if okE, _ := nc.c.errNilAfterCall(fi, g, v, func(f2 *types.Func, c2 *ast.CallExpr) bool { return c2 == call }); okE {
					return true, "J-callee-store: " + shortName(cal) + " stored the session under this key (nil-error edge)"
				}
			}
		}
		// I4: ProcessMessage's acting session — both callers establish the session before calling (checked separately)
		if fi == f.PM {
			if se, ok := ast.Unparen(key).(*ast.SelectorExpr); ok && se.Sel.Name == "Session" {
				if nc.pmCallersEstablishSession() {
					return true, "J-pre (I4): every call of ProcessMessage in applyRobustMessage is dominated by a successful look-up of msg.Session"
				}
			}
		}
	}
	return false, ""
}

// pmCallersEstablishSession: in applyRobustMessage every ProcessMessage call is dominated by the nil-error edge of
// GetSession(msg.Session) or UpdateLastClientMessageID(msg).
func (nc *nilCtx) pmCallersEstablishSession() bool {
	arm := nc.arm
	c := nc.c
	g := c.Graph(arm)
	n, ok := 0, true
	for _, call := range callsIn(arm, func(fn *types.Func, _ *ast.CallExpr) bool {
		return isFunc(fn, "ircserver", "(*IRCServer).ProcessMessage")
	}) {
		n++
		v := g.VertexOf(call)
		a, _ := c.errNilAfterCall(arm, g, v, func(fn *types.Func, _ *ast.CallExpr) bool {
			return isFunc(fn, "ircserver", "(*IRCServer).GetSession") || isFunc(fn, "ircserver", "(*IRCServer).UpdateLastClientMessageID")
		})
		if !a {
			ok = false
		}
	}
	// ProcessMessage has no other caller in non-test code
	for _, fi := range c.P.AllFuncs {
		if fi == arm {
			continue
		}
		if len(callsIn(fi, func(fn *types.Func, _ *ast.CallExpr) bool {
			return isFunc(fn, "ircserver", "(*IRCServer).ProcessMessage")
		})) > 0 {
			ok = false
		}
	}
	return ok && n >= 2
}

// nonNil: expression e of a tracked pointer type is provably non-nil at vertex v of fi.
func (nc *nilCtx) nonNil(fi *load.FuncInfo, g *cfgx.Graph, e ast.Expr, v int, depth int) (bool, string) {
	info := fi.Info()
	if depth > 5 {
		return false, ""
	}
	e = ast.Unparen(e)
	switch x := e.(type) {
	case *ast.UnaryExpr:
		if x.Op == token.AND {
			return true, "address of a value"
		}
	case *ast.CompositeLit:
		return true, "literal"
	case *ast.IndexExpr:
		if nc.stateMapOf(info, x.X) != nil {
			return nc.keyJustified(fi, g, x.X, x.Index, v)
		}
		// element of a local slice: every value appended to it is non-nil
		if sid, ok := ast.Unparen(x.X).(*ast.Ident); ok {
			so := astx.Obj(info, sid)
			apps, good := 0, 0
			ast.Inspect(fi.Body(), func(n ast.Node) bool {
				as, ok := n.(*ast.AssignStmt)
				if !ok || len(as.Lhs) != 1 || len(as.Rhs) != 1 {
					return true
				}
				l, ok := as.Lhs[0].(*ast.Ident)
				if !ok || astx.Obj(info, l) != so {
					return true
				}
				call, ok := ast.Unparen(as.Rhs[0]).(*ast.CallExpr)
				if !ok || astx.Builtin(info, call) != "append" {
					return true
				}
				for _, a := range call.Args[1:] {
					apps++
					if okA, _ := nc.nonNil(fi, g, a, g.VertexOf(as), depth+1); okA {
						good++
					}
				}
				return true
			})
			if apps > 0 && apps == good {
				return true, "element of a local slice that only receives non-nil values"
			}
		}
		return false, ""
	case *ast.SelectorExpr:
		if fv := astx.FieldSel(info, x); fv != nil {
			switch fv.Name() {
			case "ServerPrefix":
				return true, "set by the constructor, never reassigned"
			case "session":
				return true, "Replyctx.session is the acting session"
			}
			// nil test facts on the same field expression
			for _, fct := range g.FactsAt(v) {
				if y, isNil, ok := nilCompare(info, fct); ok && !isNil && astx.Same(info, y, x) {
					return true, "dominated by a nil test"
				}
			}
		}
		return false, ""
	case *ast.CallExpr:
		fn := astx.Callee(info, x)
		if fn == nil {
			return false, ""
		}
		if nc.f.sendHelpers[fn] {
			return nc.nonNil(fi, g, x.Args[len(x.Args)-1], v, depth+1)
		}
		if fname(fn) == "servicesPrefix" || strings.HasPrefix(fname(fn), "New") {
			return true, "constructor"
		}
		if isFunc(fn, pathIRC, "ParseMessage") && len(x.Args) == 1 {
			// non-nil when the argument starts with a constant of >= 2 bytes that is neither blank nor prefix-only
			if be, ok := ast.Unparen(x.Args[0]).(*ast.BinaryExpr); ok && be.Op == token.ADD {
				first := be.X
				for {
					if b2, ok := ast.Unparen(first).(*ast.BinaryExpr); ok && b2.Op == token.ADD {
						first = b2.X
						continue
					}
					break
				}
				if s, ok := astx.ConstString(info, first); ok && len(strings.TrimSpace(s)) >= 2 && s[0] != ':' && s[0] != ' ' {
					return true, "ParseMessage of a line starting with the constant " + strings.TrimSpace(s)
				}
				// variable holding such constants (cmdServiceAlias: expanded is a value of a constant map)
				if id, ok := ast.Unparen(first).(*ast.Ident); ok {
					if nc.constStringsOnly(fi, id) {
						return true, "ParseMessage of a line starting with a constant table entry"
					}
				}
			}
			return false, ""
		}
		return false, ""
	case *ast.Ident:
		obj := astx.Obj(info, x)
		if obj == nil {
			return false, ""
		}
		if isNilIdent(info, x) {
			return false, ""
		}
		// parameter?
		if nc.isParam(fi, obj) {
			// a parameter that is reassigned inside the function is treated through its definitions below as well
			ok, why := nc.paramNonNil(fi, obj)
			if !ok {
				// a local nil test may still protect the use
				for _, fct := range g.FactsAt(v) {
					if y, isNil, okc := nilCompare(info, fct); okc && !isNil {
						if id, isID := ast.Unparen(y).(*ast.Ident); isID && astx.Obj(info, id) == obj {
							return true, "dominated by a nil test"
						}
					}
				}
				return false, why
			}
			if len(defsOf(info, fi.Node(), obj)) == 0 {
				return true, why
			}
		}
		// nil test on the variable itself
		for _, fct := range g.FactsAt(v) {
			if y, isNil, okc := nilCompare(info, fct); okc && !isNil {
				if id, isID := ast.Unparen(y).(*ast.Ident); isID && astx.Obj(info, id) == obj {
					return true, "dominated by a nil test"
				}
			}
		}
		return nc.varNonNil(fi, g, obj, v, depth)
	}
	return false, ""
}

// constStringsOnly: identifier is a range value over a map literal whose values are all string constants of >= 2 bytes.
func (nc *nilCtx) constStringsOnly(fi *load.FuncInfo, id *ast.Ident) bool {
	info := fi.Info()
	o := astx.Obj(info, id)
	ok := false
	ast.Inspect(fi.Body(), func(n ast.Node) bool {
		rs, isR := n.(*ast.RangeStmt)
		if !isR || rs.Value == nil {
			return true
		}
		vid, isID := rs.Value.(*ast.Ident)
		if !isID || astx.Obj(info, vid) != o {
			return true
		}
		d := uniqueDef(info, fi.Node(), rs.X)
		cl, isL := ast.Unparen(d).(*ast.CompositeLit)
		if d == nil || !isL {
			return true
		}
		all := len(cl.Elts) > 0
		for _, el := range cl.Elts {
			kv, isKV := el.(*ast.KeyValueExpr)
			if !isKV {
				all = false
				continue
			}
			s, isC := astx.ConstString(info, kv.Value)
			if !isC || len(strings.TrimSpace(s)) < 2 || s[0] == ':' || s[0] == ' ' {
				all = false
			}
		}
		ok = all
		return true
	})
	return ok
}

func (nc *nilCtx) isParam(fi *load.FuncInfo, obj types.Object) bool {
	info := fi.Info()
	for _, fld := range fi.FuncType().Params.List {
		for _, nm := range fld.Names {
			if info.Defs[nm] == obj {
				return true
			}
		}
	}
	if fi.Decl != nil && fi.Decl.Recv != nil {
		for _, fld := range fi.Decl.Recv.List {
			for _, nm := range fld.Names {
				if info.Defs[nm] == obj {
					return true
				}
			}
		}
	}
	return false
}

// paramNonNil: every call site passes a non-nil argument (registry handlers: the dispatcher's arguments).
func (nc *nilCtx) paramNonNil(fi *load.FuncInfo, obj types.Object) (bool, string) {
	switch nc.paramMemo[obj] {
	case 1:
		return true, nc.paramWhy[obj]
	case 2:
		return false, nc.paramWhy[obj]
	case 3:
		return true, "recursive assumption"
	}
	nc.paramMemo[obj] = 3
	info := fi.Info()
	// receiver: methods are only called on the live server / sessions obtained non-nil (receivers are judged as derefs at the call)
	if fi.Decl != nil && fi.Decl.Recv != nil {
		for _, fld := range fi.Decl.Recv.List {
			for _, nm := range fld.Names {
				if info.Defs[nm] == obj {
					nc.paramMemo[obj], nc.paramWhy[obj] = 1, "receiver (dereferenced, and therefore judged, at the call)"
					return true, nc.paramWhy[obj]
				}
			}
		}
	}
	idx, k := -1, 0
	for _, fld := range fi.FuncType().Params.List {
		for _, nm := range fld.Names {
			if info.Defs[nm] == obj {
				idx = k
			}
			k++
		}
	}
	ok, why := true, "every call site passes a non-nil value"
	n := 0
	if nc.f.Client[fi] || nc.f.Server[fi] {
		// dispatcher: cmd.Func(i, s, reply, ircmsg) in ProcessMessage
		n++
		pm := nc.f.PM
		pg := nc.c.Graph(pm)
		for _, call := range astx.Calls(pm.Body(), false) {
			se, isSel := ast.Unparen(call.Fun).(*ast.SelectorExpr)
			if !isSel || se.Sel.Name != "Func" || idx+1 >= len(call.Args)+1 {
				continue
			}
			// the dispatcher passes (i, s, reply, ircmsg): parameter idx of the handler is argument idx+1
			if idx+1 < len(call.Args) {
				a := call.Args[idx+1]
				if okA, _ := nc.nonNil(pm, pg, a, pg.VertexOf(call), 1); !okA {
					ok, why = false, "the dispatcher may pass nil for this parameter"
				}
			}
		}
	}
	for _, cs := range nc.callSites[fi] {
		if idx < 0 || idx >= len(cs.call.Args) {
			continue
		}
		n++
		cg := nc.c.Graph(cs.caller)
		if okA, _ := nc.nonNil(cs.caller, cg, cs.call.Args[idx], cg.VertexOf(cs.call), 1); !okA {
			ok, why = false, "call site in "+shortName(cs.caller)+" may pass nil ("+astx.Str(cs.call.Args[idx])+")"
		}
	}
	if n == 0 {
		ok, why = false, "no call site found"
	}
	if ok {
		nc.paramMemo[obj] = 1
	} else {
		nc.paramMemo[obj] = 2
	}
	nc.paramWhy[obj] = why
	return ok, why
}

// varNonNil: every definition of the local that reaches v without redefinition yields a non-nil value on those paths.
func (nc *nilCtx) varNonNil(fi *load.FuncInfo, g *cfgx.Graph, obj types.Object, uv int, depth int) (bool, string) {
	info := fi.Info()
	type def struct {
		v    int
		rhs  ast.Expr
		ok   types.Object // comma-ok / error companion
		kind string       // lookup | call | copy | range
	}
	var defs []def
	for _, vx := range g.Nodes() {
		switch n := vx.Node.(type) {
		case *ast.AssignStmt:
			for i, l := range n.Lhs {
				id, ok := l.(*ast.Ident)
				if !ok || astx.Obj(info, id) != obj {
					continue
				}
				d := def{v: vx.ID}
				if len(n.Lhs) == len(n.Rhs) {
					d.rhs = n.Rhs[i]
				} else if len(n.Rhs) == 1 {
					d.rhs = n.Rhs[0]
					if i == 0 && len(n.Lhs) == 2 {
						if cid, ok := n.Lhs[1].(*ast.Ident); ok && cid.Name != "_" {
							d.ok = astx.Obj(info, cid)
						}
					}
				}
				defs = append(defs, d)
			}
		case *ast.ValueSpec:
			for i, nm := range n.Names {
				if info.Defs[nm] == obj {
					d := def{v: vx.ID}
					if len(n.Values) == len(n.Names) {
						d.rhs = n.Values[i]
					}
					defs = append(defs, d)
				}
			}
		case ast.Expr:
			// range key/value identifiers are CFG nodes of their own
			if id, ok := n.(*ast.Ident); ok && info.Defs[id] == obj {
				defs = append(defs, def{v: vx.ID, kind: "range"})
			}
		}
	}
	if len(defs) == 0 {
		return false, "no definition found"
	}
	isDef := func(v int) bool {
		for _, d := range defs {
			if d.v == v {
				return true
			}
		}
		return false
	}
	whyAll := ""
	for _, d := range defs {
		blockDefs := func(v int) bool { return v != uv && isDef(v) }
		var starts []int
		for _, e := range g.V[d.v].Succ {
			starts = append(starts, e.To)
		}
		reaches := false
		for _, st := range starts {
			if st == uv || (!blockDefs(st) && g.Reach(st, blockDefs, nil)[uv]) {
				reaches = true
			}
		}
		if d.v == uv {
			// the use is part of the defining statement's right-hand side: only loop-carried reaching counts (computed above)
		}
		if !reaches {
			continue
		}
		// facts on all redefinition-free paths from the definition to the use
		var pathFacts []cfgx.Fact
		for _, vv := range g.V {
			if len(vv.Succ) != 2 || vv.Succ[0].Cond == nil || vv.Succ[0].To == vv.Succ[1].To {
				continue
			}
			for _, e := range vv.Succ {
				still := false
				for _, st := range starts {
					if st == uv && vv.ID != uv {
						still = true
					}
					if !blockDefs(st) && g.Reach(st, blockDefs, func(x *cfgx.Edge) bool { return x == e })[uv] {
						still = true
					}
				}
				if !still {
					pathFacts = append(pathFacts, cfgx.ExpandCond(e.Cond, e.Val)...)
				}
			}
		}
		okD, whyD := false, ""
		// nil test of the variable on these paths
		for _, fct := range pathFacts {
			if y, isNil, okc := nilCompare(info, fct); okc && !isNil {
				if id, isID := ast.Unparen(y).(*ast.Ident); isID && astx.Obj(info, id) == obj {
					okD, whyD = true, "nil test on every path from the definition"
				}
			}
		}
		switch {
		case okD:
		case d.kind == "range":
			okD, whyD = true, "range value over a state map (I0: state maps never hold nil)"
		case d.rhs == nil:
			okD, whyD = false, "zero value"
		default:
			rhs := ast.Unparen(d.rhs)
			isMapIdx := false
			if ie, isIdx := rhs.(*ast.IndexExpr); isIdx {
				if tv, okT := info.Types[ie.X]; okT {
					_, isMapIdx = tv.Type.Underlying().(*types.Map)
				}
			}
			if ie, isIdx := rhs.(*ast.IndexExpr); isIdx && (nc.stateMapOf(info, ie.X) != nil || (isMapIdx && d.ok != nil)) {
				// comma-ok on the paths
				if d.ok != nil {
					onlyFalse := true
					for _, dd := range defsOf(info, fi.Node(), d.ok) {
						if dd == nil {
							continue
						}
						if _, isI := ast.Unparen(dd).(*ast.IndexExpr); isI {
							continue
						}
						if fid, isID := ast.Unparen(dd).(*ast.Ident); !isID || fid.Name != "false" {
							onlyFalse = false
						}
					}
					for _, fct := range pathFacts {
						if fid, isID := ast.Unparen(fct.Expr).(*ast.Ident); isID && fct.Tag == nil && fct.Val && astx.Obj(info, fid) == d.ok && onlyFalse {
							okD, whyD = true, "J-ok: the look-up's ok result holds on every path from the look-up"
						}
					}
				}
				if !okD && nc.stateMapOf(info, ie.X) != nil {
					okD, whyD = nc.keyJustified(fi, g, ie.X, ie.Index, d.v)
				}
			} else if call, isCall := rhs.(*ast.CallExpr); isCall && d.ok != nil {
				// (ptr, err) := f(): err == nil on the paths
				for _, fct := range pathFacts {
					if y, isNil, okc := nilCompare(info, fct); okc && isNil {
						if id, isID := ast.Unparen(y).(*ast.Ident); isID && astx.Obj(info, id) == d.ok {
							okD, whyD = true, "the call's error is nil on every path from the call"
						}
					}
					if fid, isID := ast.Unparen(fct.Expr).(*ast.Ident); isID && fct.Tag == nil && fct.Val && astx.Obj(info, fid) == d.ok {
						okD, whyD = true, "the call's ok result holds on every path from the call"
					}
				}
				_ = call
			} else {
				okD, whyD = nc.nonNil(fi, g, rhs, d.v, depth+1)
			}
		}
		if !okD {
			return false, "definition " + nc.c.P.Pos(g.V[d.v].Node.Pos()) + " may leave it nil"
		}
		whyAll = whyD
	}
	if whyAll == "" {
		return false, "no definition reaches the use"
	}
	return true, whyAll
}

// ================= G3 / G4 driver
func (c *Ctx) c06Nil(f *ircFacts, fns []*load.FuncInfo, serverOnly func(*load.FuncInfo) bool, arm *load.FuncInfo) {
	r := c.R
	nc := &nilCtx{c: c, f: f, scope: map[*load.FuncInfo]bool{}, serverOnly: serverOnly, callSites: map[*load.FuncInfo][]nilCallSite{}, paramMemo: map[types.Object]int{}, paramWhy: map[types.Object]string{}, arm: arm}
	for _, fi := range fns {
		nc.scope[fi] = true
	}
	for _, fi := range fns {
		info := fi.Info()
		for _, call := range astx.Calls(fi.Body(), true) {
			var cal *load.FuncInfo
			if fn := astx.Callee(info, call); fn != nil {
				cal = c.P.FuncOf(fn)
			} else if id, ok := ast.Unparen(call.Fun).(*ast.Ident); ok {
				if v, ok := info.Uses[id].(*types.Var); ok {
					cal = c.P.VarFunc(v)
				}
			}
			if cal != nil && nc.scope[cal] {
				nc.callSites[cal] = append(nc.callSites[cal], nilCallSite{fi, call})
			}
		}
	}
	// I0: state maps never receive nil values
	for _, w := range c.stateMapWrites(f.fSessions, f.fNicks, f.fChannels, f.fCNicks) {
		if w.delete || w.val == nil || w.fi.Name() == "ircserver.(*IRCServer).Unmarshal" {
			continue
		}
		g := c.Graph(w.fi)
		ok, why := nc.nonNil(w.fi, g, w.val, g.VertexOf(w.node), 0)
		r.Check(ok, "C06.G3", w.fi.Name(), "I0: store of a non-nil value into "+w.field.Name()+"["+astx.Str(w.key)+"]", c.P.Pos(w.node.Pos()), why,
			"a possibly nil pointer is stored into a state map: every later range over the map or justified look-up dereferences it")
	}
	nDeref := 0
	for _, fi := range fns {
		info := fi.Info()
		g := c.Graph(fi)
		seen := map[string]bool{}
		ast.Inspect(fi.Body(), func(n ast.Node) bool {
			var X ast.Expr
			switch x := n.(type) {
			case *ast.SelectorExpr:
				if _, isSel := info.Selections[x]; !isSel {
					return true
				}
				X = x.X
			case *ast.IndexExpr:
				tv, ok := info.Types[x.X]
				if !ok {
					return true
				}
				if p, isP := tv.Type.Underlying().(*types.Pointer); isP {
					if _, isArr := p.Elem().Underlying().(*types.Array); isArr {
						X = x.X
					}
				}
			case *ast.StarExpr:
				X = x.X
			}
			if X == nil {
				return true
			}
			tv, ok := info.Types[X]
			if !ok || !trackedPtr(tv.Type) {
				return true
			}
			// the receiver of the enclosing method and always-non-nil things are skipped cheaply
			if id, isID := ast.Unparen(X).(*ast.Ident); isID && fi.Decl != nil && fi.Decl.Recv != nil {
				for _, fld := range fi.Decl.Recv.List {
					for _, nm := range fld.Names {
						if info.Defs[nm] == astx.Obj(info, id) {
							return true
						}
					}
				}
			}
			node := n.(ast.Expr)
			v := g.VertexOf(node)
			if v < 0 {
				return true
			}
			key := astx.Str(X)
			nDeref++
			facts := leftConjuncts(g.V[v].Node, node)
			ok2, why := nc.nonNil(fi, g, X, v, 0)
			if !ok2 {
				// protected by the left operand of an enclosing && (ok && x.f)
				for _, fct := range facts {
					if fid, isID := ast.Unparen(fct.Expr).(*ast.Ident); isID && fct.Val {
						if xid, isX := ast.Unparen(X).(*ast.Ident); isX {
							for _, d := range defsOf(info, fi.Node(), astx.Obj(info, fid)) {
								if ie, isI := ast.Unparen(d).(*ast.IndexExpr); d != nil && isI && nc.stateMapOf(info, ie.X) != nil {
									// same statement defines X and ok
									for _, dx := range defsOf(info, fi.Node(), astx.Obj(info, xid)) {
										if dx == d {
											ok2, why = true, "J-ok: right operand of ok && …"
										}
									}
								}
							}
						}
					}
					if y, isNil, okc := nilCompare(info, fct); okc && !isNil && astx.Same(info, y, X) {
						ok2, why = true, "right operand of a nil test"
					}
				}
			}
			construct := "deref of " + key
			if ok2 {
				if !seen[construct] {
					seen[construct] = true
					r.Ok("C06.G3", fi.Name(), construct, c.P.Pos(node.Pos()), why)
				}
				return true
			}
			// services lines: the prefix of a protocol-conforming line is present
			if serverOnly(fi) && strings.Contains(strings.ToLower(key), "prefix") {
				if !seen[construct] {
					seen[construct] = true
					r.Assume("C06.G3", fi.Name(), construct, c.P.Pos(node.Pos()), "services lines are protocol-conforming (they carry a prefix)")
				}
				return true
			}
			if seen[construct] {
				return true
			}
			seen[construct] = true
			r.Fail("C06.G3", fi.Name(), construct, c.P.Pos(node.Pos()),
				"the pointer may be nil here ("+why+"): no dominating ok/nil test, no store under the same key and none of the state invariants I1-I4 justifies the look-up — a client line reaching this point panics while being applied, which terminates every node")
			return true
		})
	}
	r.Check(nDeref >= 300, "C06.G3", "scope", "pointer dereferences enumerated", "-", itoa(nDeref), "fewer dereferences than expected")
}

// storesSessionParam: index of the parameter p such that the function stores i.sessions[p] = <non-nil> on every path to a nil-error return, or -1.
func (nc *nilCtx) storesSessionParam(cal *load.FuncInfo) int {
	if cal.Body() == nil {
		return -1
	}
	info := cal.Info()
	g := nc.c.Graph(cal)
	for _, vx := range g.Nodes() {
		as, ok := vx.Node.(*ast.AssignStmt)
		if !ok || len(as.Lhs) != 1 || len(as.Rhs) != 1 {
			continue
		}
		ie, ok := ast.Unparen(as.Lhs[0]).(*ast.IndexExpr)
		if !ok || nc.stateMapOf(info, ie.X) != nc.f.fSessions {
			continue
		}
		kid, ok := ast.Unparen(ie.Index).(*ast.Ident)
		if !ok {
			continue
		}
		if nn, _ := nc.nonNil(cal, g, as.Rhs[0], vx.ID, 2); !nn {
			continue
		}
		idx, k := -1, 0
		for _, fld := range cal.FuncType().Params.List {
			for _, nm := range fld.Names {
				if info.Defs[nm] == astx.Obj(info, kid) {
					idx = k
				}
				k++
			}
		}
		if idx < 0 {
			continue
		}
		all := true
		for _, rv := range g.Returns() {
			rs := rv.Node.(*ast.ReturnStmt)
			if len(rs.Results) >= 1 && isNilIdent(info, rs.Results[len(rs.Results)-1]) {
				if !g.DominatedBy(rv.ID, func(x *cfgx.Vertex) bool { return x.ID == vx.ID }) {
					all = false
				}
			}
		}
		if all {
			return idx
		}
	}
	return -1
}
