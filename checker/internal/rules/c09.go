package rules

import (
	"go/ast"
	"go/token"
	"go/types"
	"strings"

	"verif/checker/internal/astx"
	"verif/checker/internal/cfgx"
	"verif/checker/internal/flowx"
	"verif/checker/internal/load"
)

func init() { register("C09", c09) }

func c09(c *Ctx) {
	r := c.R
	r.Explanation = "Partial: structural clauses of the LevelDB-backed raft.LogStore/StableStore. (L1) key-space separation: every stable-store method prepends the same constant prefix, every log method derives an 8-byte big-endian key from the index, the index scans skip keys with that same prefix, and the prefix cannot be mistaken for a log key; (L2) sibling agreement of the four stable-store methods and of the log writers (every entry handed to StoreLogs is written, keyed by its own index; batches are written and their error returned); (L3) the error contract: not-found maps to raft.ErrLogNotFound / zero value, empty stores report index 0; (L4) the interval convention: GetBulkIterator is half-open, built from start/limit in that order, and every caller passes its inclusive upper bound + 1; DeleteRange deletes every key of its range. Equality with an in-memory model over all operation sequences and reopen points is behavioural and not decided."
	r.Rules = []string{"C09.L1 key-space separation", "C09.L2 sibling agreement", "C09.L3 error contract", "C09.L4 interval convention", "C09.L5 error discipline", "C09.L6 lock hygiene", "C09.L7 key of the written entry", "C09.L8 conversion on open", "C09.L9 iterator discipline", "C09.L10 decisive errors stay decisive", "C09.L11 recovery on open"}

	store := c.P.Named("raftstore", "LevelDBStore")
	if store == nil {
		r.Break("raftstore.LevelDBStore not found")
		return
	}
	method := func(name string) *load.FuncInfo { return c.MustFunc("raftstore.(*LevelDBStore)." + name) }

	// ---------- L1/L2 stable store
	prefixes := map[string][]string{}
	var stablePrefix string
	for _, name := range []string{"Set", "Get", "SetUint64", "GetUint64"} {
		fi := method(name)
		if fi == nil {
			continue
		}
		r.Functions++
		info := fi.Info()
		pos := c.P.Pos(fi.Node().Pos())
		// key = append([]byte(P), key...)
		var keyParam types.Object
		for _, fld := range fi.FuncType().Params.List {
			for _, nm := range fld.Names {
				if nm.Name == "key" || keyParam == nil {
					if _, ok := info.Defs[nm].Type().Underlying().(*types.Slice); ok && keyParam == nil {
						keyParam = info.Defs[nm]
					}
				}
			}
		}
		pfx := ""
		var prefixedObj types.Object
		// append([]byte(<const>), <key parameter>...)
		prefixOfExpr := func(e ast.Expr) (string, bool) {
			call, ok := ast.Unparen(e).(*ast.CallExpr)
			if !ok || astx.Builtin(info, call) != "append" || len(call.Args) != 2 || !call.Ellipsis.IsValid() {
				return "", false
			}
			if conv, ok := ast.Unparen(call.Args[0]).(*ast.CallExpr); ok && astx.IsConversion(info, conv) && len(conv.Args) == 1 {
				if s, ok := astx.ConstString(info, conv.Args[0]); ok {
					if id, ok := ast.Unparen(call.Args[1]).(*ast.Ident); ok && astx.Obj(info, id) == keyParam {
						return s, true
					}
				}
			}
			return "", false
		}
		direct := false // the prefixed key is built where the database is accessed
		ast.Inspect(fi.Body(), func(n ast.Node) bool {
			switch x := n.(type) {
			case *ast.AssignStmt:
				if len(x.Lhs) != 1 || len(x.Rhs) != 1 {
					return true
				}
				if s, ok := prefixOfExpr(x.Rhs[0]); ok {
					pfx = s
					if lid, ok := x.Lhs[0].(*ast.Ident); ok {
						prefixedObj = astx.Obj(info, lid)
					}
				}
			case *ast.CallExpr:
				se, ok := ast.Unparen(x.Fun).(*ast.SelectorExpr)
				if !ok || (se.Sel.Name != "Put" && se.Sel.Name != "Get") || len(x.Args) < 1 {
					return true
				}
				if s, ok := prefixOfExpr(x.Args[0]); ok && pfx == "" {
					pfx = s
					direct = true
				}
			}
			return true
		})
		r.Check(pfx != "", "C09.L1", fi.Name(), "prepends the stable-store prefix", pos, "key = append([]byte(<const>), key...)", "the stable-store key is not built by prepending a constant prefix to the caller's key: it can shadow (or be shadowed by) a log entry")
		if pfx != "" {
			prefixes[pfx] = append(prefixes[pfx], fi.Name())
			stablePrefix = pfx
		}
		// the database access uses the prefixed key
		okUse := false
		for _, call := range astx.Calls(fi.Body(), false) {
			se, ok := ast.Unparen(call.Fun).(*ast.SelectorExpr)
			if !ok || (se.Sel.Name != "Put" && se.Sel.Name != "Get") || len(call.Args) < 1 {
				continue
			}
			if id, ok := ast.Unparen(call.Args[0]).(*ast.Ident); ok && astx.Obj(info, id) == prefixedObj && prefixedObj != nil {
				okUse = true
			}
			if _, ok := prefixOfExpr(call.Args[0]); ok && direct {
				okUse = true
			}
		}
		r.Check(okUse, "C09.L1", fi.Name(), "accesses the database under the prefixed key", pos, "db.Put/Get(<prefixed key>, …)", "the database is not accessed under the prefixed key")
		// readers: ErrNotFound -> zero value, nil error
		if strings.HasPrefix(name, "Get") {
			g := c.Graph(fi)
			okNF := false
			for _, rv := range g.Returns() {
				rs := rv.Node.(*ast.ReturnStmt)
				for _, f := range g.FactsAt(rv.ID) {
					if be, ok := ast.Unparen(f.Expr).(*ast.BinaryExpr); ok && f.Tag == nil && f.Val && be.Op == token.EQL && (refersTo(info, be.Y, pathLevelDB, "ErrNotFound") || refersTo(info, be.X, pathLevelDB, "ErrNotFound")) {
						if len(rs.Results) == 2 && isNilIdent(info, rs.Results[1]) {
							if isNilIdent(info, rs.Results[0]) {
								okNF = true
							} else if v, ok := astx.ConstInt(info, rs.Results[0]); ok && v == 0 {
								okNF = true
							}
						}
					}
				}
			}
			r.Check(okNF, "C09.L3", fi.Name(), "a missing key reads as the zero value without error", pos, "err == leveldb.ErrNotFound -> (zero, nil)", "a missing stable-store key is not reported as (zero value, nil), which raft relies on for a fresh node")
		}
		// uint64 encoding
		if strings.HasSuffix(name, "Uint64") {
			en, ok := "", false
			for _, call := range astx.Calls(fi.Body(), false) {
				if e2, m := endianOf(info, call); m == "PutUint64" || m == "Uint64" {
					en, ok = e2, true
				}
			}
			r.Check(ok && en == "BigEndian", "C09.L2", fi.Name(), "uint64 values are big-endian", pos, "binary.BigEndian", "SetUint64 and GetUint64 do not use the same (big-endian) encoding")
		}
	}
	r.Check(len(prefixes) == 1, "C09.L2", "raftstore.LevelDBStore", "one stable-store prefix for all four methods", "-", stablePrefix, "the stable-store methods use different key prefixes: values written by one are invisible to the other")
	r.Check(stablePrefix != "" && len(stablePrefix) != 8, "C09.L1", "raftstore.LevelDBStore", "prefix cannot be mistaken for a log key", "-", "length != 8", "a prefixed stable-store key could have the length of a log key")

	// L1c: two kinds of keys and no third: whatever is written to the store's database is keyed by an 8-byte index key (a
	// buffer filled with PutUint64, or the key the iterator stands on) or by stable-store prefix + key. FirstIndex / LastIndex
	// skip exactly that one prefix; a record under any other key is taken for a log entry
	{
		nW := 0
		for _, fi := range c.P.FuncsIn("raftstore") {
			if fi.Body() == nil {
				continue
			}
			info := fi.Info()
			for _, call := range astx.Calls(fi.Body(), true) {
				if !leveldbCall(info, call, "Put") || len(call.Args) < 2 {
					continue
				}
				nW++
				key := ast.Unparen(call.Args[0])
				if sl, ok := key.(*ast.SliceExpr); ok && sl.Low == nil && sl.High == nil {
					key = ast.Unparen(sl.X)
				}
				kind := ""
				var classify func(e ast.Expr, depth int) string
				classify = func(e ast.Expr, depth int) string {
					e = ast.Unparen(e)
					switch x := e.(type) {
					case *ast.CallExpr:
						if leveldbCall(info, x, "Key") {
							return "index"
						}
						if astx.Builtin(info, x) == "append" && len(x.Args) >= 2 {
							if conv, ok := ast.Unparen(x.Args[0]).(*ast.CallExpr); ok && astx.IsConversion(info, conv) && len(conv.Args) == 1 {
								if s, ok := astx.ConstString(info, conv.Args[0]); ok {
									if s == stablePrefix {
										return "stable"
									}
									return "other prefix " + strconvQuote(s)
								}
							}
						}
						if astx.Builtin(info, x) == "make" {
							return "buffer"
						}
					case *ast.Ident:
						if depth > 3 {
							return ""
						}
						obj := astx.Obj(info, x)
						res := ""
						for _, d := range defsOf(info, fi.Node(), obj) {
							if d == nil {
								continue
							}
							k := classify(d, depth+1)
							if k == "buffer" {
								// filled by PutUint64?
								for _, c2 := range astx.Calls(fi.Body(), true) {
									if _, m := endianOf(info, c2); m == "PutUint64" && len(c2.Args) == 2 {
										if id, ok := ast.Unparen(c2.Args[0]).(*ast.Ident); ok && astx.Obj(info, id) == obj {
											k = "index"
										}
									}
								}
							}
							if k != "" && (res == "" || k != "index" && k != "stable") {
								res = k
							}
						}
						if res == "" {
							// a parameter that the stable-store methods overwrite with the prefixed key
							return ""
						}
						return res
					}
					return ""
				}
				kind = classify(key, 0)
				r.Check(kind == "index" || kind == "stable", "C09.L1", fi.Name(), "what is written is keyed by an index key or by the stable-store prefix", c.P.Pos(call.Pos()), "key kind: "+kind,
					"a record is written to the log database under a key that is neither an 8-byte index key nor stable-store prefix + key ("+kind+"): FirstIndex / LastIndex skip only the stable-store prefix and take it for a log entry — the last index becomes garbage and raft cannot load its log after a restart")
			}
		}
		if nW < 4 {
			r.Break("C09.L1: only %d writes to the store's database found", nW)
		}
	}
	// index scans skip the same prefix
	for _, name := range []string{"FirstIndex", "LastIndex", "ConvertToProto"} {
		fi := method(name)
		if fi == nil {
			continue
		}
		r.Functions++
		info := fi.Info()
		n, okSame := 0, true
		for _, call := range astx.Calls(fi.Body(), false) {
			fn := astx.Callee(info, call)
			if fn == nil || !isFunc(fn, "bytes", "HasPrefix") || len(call.Args) != 2 {
				continue
			}
			n++
			okP := false
			pa := ast.Unparen(call.Args[1])
			if id, isID := pa.(*ast.Ident); isID { // the prefix held in a local that is defined once
				if d := uniqueDef(info, fi.Node(), id); d != nil {
					pa = ast.Unparen(d)
				}
			}
			if conv, ok := pa.(*ast.CallExpr); ok && len(conv.Args) == 1 {
				if s, ok := astx.ConstString(info, conv.Args[0]); ok && s == stablePrefix {
					okP = true
				}
			}
			if !okP {
				okSame = false
			}
		}
		r.Check(n > 0 && okSame, "C09.L1", fi.Name(), "skips stable-store keys by the same prefix", c.P.Pos(fi.Node().Pos()), "bytes.HasPrefix(key, []byte(\""+stablePrefix+"\"))", "the scan does not skip stable-store keys (or uses a different prefix): a stable-store key is decoded as a log index")
		// … and skips all of them: the prefix test is a loop condition, or — judged on the graph — every key that is decoded
		// and returned has failed the prefix test (`for ok := i.First(); ok; ok = i.Next() { if !HasPrefix(…) { return … } }`)
		inLoop := 0
		ast.Inspect(fi.Body(), func(nd ast.Node) bool {
			if fs, ok := nd.(*ast.ForStmt); ok && fs.Cond != nil {
				for _, call := range astx.Calls(fs.Cond, false) {
					if fn := astx.Callee(info, call); fn != nil && isFunc(fn, "bytes", "HasPrefix") {
						inLoop++
					}
				}
			}
			return true
		})
		if inLoop != n && name != "ConvertToProto" {
			g := c.Graph(fi)
			nDec, allTested := 0, true
			for _, rv := range g.Returns() {
				rs := rv.Node.(*ast.ReturnStmt)
				dec := false
				for _, res := range rs.Results {
					for _, call := range astx.Calls(res, false) {
						if en, m := endianOf(info, call); m == "Uint64" && en != "" {
							dec = true
						}
					}
				}
				if !dec {
					continue
				}
				nDec++
				tested := false
				for _, f := range g.FactsAt(rv.ID) {
					if hc, ok := ast.Unparen(f.Expr).(*ast.CallExpr); ok && f.Tag == nil && !f.Val {
						if fn := astx.Callee(info, hc); fn != nil && isFunc(fn, "bytes", "HasPrefix") {
							tested = true
						}
					}
				}
				if !tested {
					allTested = false
				}
			}
			// … and the loop goes on while the test holds: the step is reachable from the edge on which the prefix matched
			if nDec > 0 && allTested {
				inLoop = n
			}
		}
		r.Check(inLoop == n && n > 0, "C09.L1", fi.Name(), "skips every stable-store key, not just one", c.P.Pos(fi.Node().Pos()), "prefix test is the condition of a for loop", "the scan tests the stable-store prefix once instead of looping: with two or more stable-store keys next to the log entries the second one is decoded as a log index")
	}
	// FirstIndex / LastIndex shape
	for _, spec := range []struct{ name, start, step string }{{"FirstIndex", "First", "Next"}, {"LastIndex", "Last", "Prev"}} {
		fi := method(spec.name)
		if fi == nil {
			continue
		}
		info := fi.Info()
		g := c.Graph(fi)
		hasStart, hasStep := false, false
		for _, call := range astx.Calls(fi.Body(), false) {
			if se, ok := ast.Unparen(call.Fun).(*ast.SelectorExpr); ok {
				if se.Sel.Name == spec.start {
					hasStart = true
				}
				if se.Sel.Name == spec.step {
					hasStep = true
				}
			}
		}
		r.Check(hasStart && hasStep, "C09.L3", fi.Name(), "scans from the "+strings.ToLower(spec.start)+" key with "+spec.step, c.P.Pos(fi.Node().Pos()), spec.start+"()/"+spec.step+"()", spec.name+" does not scan from the "+strings.ToLower(spec.start)+" key in the right direction")
		nZero, nKey := 0, 0
		for _, rv := range g.Returns() {
			rs := rv.Node.(*ast.ReturnStmt)
			if len(rs.Results) != 2 || !isNilIdent(info, rs.Results[1]) {
				continue
			}
			if v, ok := astx.ConstInt(info, rs.Results[0]); ok && v == 0 {
				nZero++
				// on an exhausted-iterator edge
				okE := false
				for _, f := range g.FactsAt(rv.ID) {
					if call, ok := ast.Unparen(f.Expr).(*ast.CallExpr); ok && !f.Val && f.Tag == nil {
						if se, ok := ast.Unparen(call.Fun).(*ast.SelectorExpr); ok && (se.Sel.Name == spec.start || se.Sel.Name == spec.step) {
							okE = true
						}
					}
					// … or the flag that holds the result of the positioning calls is false (for ok := i.First(); ok; ok = i.Next())
					if id, ok := ast.Unparen(f.Expr).(*ast.Ident); ok && !f.Val && f.Tag == nil {
						ds := defsOf(info, fi.Node(), astx.Obj(info, id))
						all := len(ds) > 0
						for _, d := range ds {
							dc, isCall := ast.Unparen(d).(*ast.CallExpr)
							if d == nil || !isCall {
								all = false
								continue
							}
							if se, ok := ast.Unparen(dc.Fun).(*ast.SelectorExpr); !ok || (se.Sel.Name != spec.start && se.Sel.Name != spec.step) {
								all = false
							}
						}
						if all {
							okE = true
						}
					}
				}
				r.Check(okE, "C09.L3", fi.Name(), "reports 0 only when no log entry exists", c.P.Pos(rs.Pos()), "on the exhausted-iterator edge", "index 0 is reported although the iterator found a log entry")
			} else {
				for _, call := range astx.Calls(rs.Results[0], false) {
					if en, m := endianOf(info, call); m == "Uint64" && en == "BigEndian" {
						nKey++
					}
				}
			}
		}
		r.Check(nZero >= 1 && nKey == 1, "C09.L3", fi.Name(), "returns the decoded key or 0", c.P.Pos(fi.Node().Pos()), "empty exit(s) + big-endian key", spec.name+" does not have the expected exits (0 for empty stores, the big-endian decoded key otherwise)")
	}

	// ---------- log methods: keys
	for _, spec := range []struct {
		name  string
		index string // description of the index source
	}{{"GetLog", "index parameter"}, {"StoreLogs", "entry.Index"}, {"StoreLogProto", "msg.Index"}} {
		fi := method(spec.name)
		if fi == nil {
			continue
		}
		r.Functions++
		info := fi.Info()
		deps := flowx.Compute(info, fi.Node())
		ok := false
		for _, call := range astx.Calls(fi.Body(), false) {
			se, isSel := ast.Unparen(call.Fun).(*ast.SelectorExpr)
			if !isSel || (se.Sel.Name != "Put" && se.Sel.Name != "Get") || len(call.Args) < 1 {
				continue
			}
			d := deps.Of(call.Args[0])
			for o := range d {
				switch x := o.(type) {
				case *types.Var:
					if x.Name() == "Index" || x.Name() == "index" {
						ok = true
					}
				}
			}
		}
		en := ""
		for _, call := range astx.Calls(fi.Body(), false) {
			if e2, m := endianOf(info, call); m == "PutUint64" {
				en = e2
			}
		}
		r.Check(ok && en == "BigEndian", "C09.L1", fi.Name(), "log key is the big-endian "+spec.index, c.P.Pos(fi.Node().Pos()), "binary.BigEndian.PutUint64(key, "+spec.index+")", "the log entry is not keyed by the big-endian encoding of its index: lookups and range scans miss it")
	}
	// GetLog error contract
	if fi := method("GetLog"); fi != nil {
		info := fi.Info()
		g := c.Graph(fi)
		ok := false
		for _, rv := range g.Returns() {
			rs := rv.Node.(*ast.ReturnStmt)
			if len(rs.Results) == 1 && refersTo(info, rs.Results[0], pathRaft, "ErrLogNotFound") {
				for _, f := range g.FactsAt(rv.ID) {
					if be, isBE := ast.Unparen(f.Expr).(*ast.BinaryExpr); isBE && f.Val && be.Op == token.EQL && (refersTo(info, be.Y, pathLevelDB, "ErrNotFound") || refersTo(info, be.X, pathLevelDB, "ErrNotFound")) {
						ok = true
					}
				}
			}
		}
		r.Check(ok, "C09.L3", fi.Name(), "a missing entry is reported as raft.ErrLogNotFound", c.P.Pos(fi.Node().Pos()), "leveldb.ErrNotFound -> raft.ErrLogNotFound", "GetLog does not translate LevelDB's not-found error into raft.ErrLogNotFound (raft treats any other error as fatal)")
	}
	// StoreLogs: every entry written, batch error returned
	if fi := method("StoreLogs"); fi != nil {
		info := fi.Info()
		var logsParam types.Object
		for _, fld := range fi.FuncType().Params.List {
			for _, nm := range fld.Names {
				logsParam = info.Defs[nm]
			}
		}
		nLoops := 0
		ast.Inspect(fi.Body(), func(n ast.Node) bool {
			rs, ok := n.(*ast.RangeStmt)
			if !ok {
				return true
			}
			id, ok := ast.Unparen(rs.X).(*ast.Ident)
			if !ok || astx.Obj(info, id) != logsParam {
				return true
			}
			nLoops++
			// on the CFG: no way from the top of the body back to the loop header avoids a batch.Put (paths that leave the
			// function — return err — are fine), and the loop is not left early (no path from the body to the statement
			// after the loop that does not go through the header)
			put, skip := false, false
			if len(rs.Body.List) > 0 {
				g := c.Graph(fi)
				bodyStart := g.VertexOf(rs.Body.List[0])
				isPut := func(x int) bool {
					if g.V[x].Node == nil {
						return false
					}
					for _, call := range astx.Calls(g.V[x].Node, false) {
						if se, ok := ast.Unparen(call.Fun).(*ast.SelectorExpr); ok && se.Sel.Name == "Put" {
							if fn := astx.Callee(info, call); fn != nil && fn.Pkg() != nil && fn.Pkg().Path() == pathLevelDB {
								return true
							}
						}
					}
					return false
				}
				head := -1
				for _, v := range g.V {
					for _, e := range v.Succ {
						if e.Range == rs {
							head = v.ID
						}
					}
				}
				if bodyStart >= 0 && head >= 0 {
					avoid := g.Reach(bodyStart, func(x int) bool { return isPut(x) || x == head }, nil)
					back := isPut(bodyStart) == false && false
					for _, v := range g.V {
						if !(avoid[v.ID] || v.ID == bodyStart) || isPut(v.ID) {
							continue
						}
						for _, e := range v.Succ {
							if e.To == head {
								back = true // the header is reachable again without a Put
							}
						}
					}
					put = !back
					// early exit: anything after the loop reachable from the body without passing the header (returns excluded)
					inBody := g.Reach(bodyStart, func(x int) bool { return x == head }, nil)
					inside := func(x int) bool {
						return g.V[x].Node != nil && rs.Body.Pos() <= g.V[x].Node.Pos() && g.V[x].Node.End() <= rs.Body.End()
					}
					for x := range g.V {
						if !inBody[x] || g.V[x].Node == nil || x == g.Exit {
							continue
						}
						if inside(x) {
							continue
						}
						// left the loop body without going through the header: break / goto — unless every way out starts where an
						// error is known to be set (an expanded helper's `return nil, err` is `{ …, err = nil, e; break L }`)
						errExit := true
						for _, p := range g.V {
							if !inBody[p.ID] && p.ID != bodyStart || !inside(p.ID) {
								continue
							}
							for _, e := range p.Succ {
								if e.To != x {
									continue
								}
								known := false
								for _, fct := range g.FactsAt(p.ID) {
									if _, isNil, isCmp := nilCompare(info, fct); isCmp && !isNil {
										known = true
									}
								}
								if !known {
									errExit = false
								}
							}
						}
						if !errExit {
							skip = true
						}
					}
				}
			}
			r.Check(put && !skip, "C09.L2", fi.Name(), "every entry handed over is written", c.P.Pos(rs.Pos()), "unconditional batch.Put per entry", "StoreLogs skips entries (conditional write or continue/break in the loop)")
			return true
		})
		r.Check(nLoops >= 1, "C09.L2", fi.Name(), "iterates the entries", c.P.Pos(fi.Node().Pos()), "range logs", "StoreLogs does not iterate over the entries it is given")
	}
	// the writers produce one of the two encodings every reader knows: 'p' + protobuf, or bare JSON. A value stored under a
	// third marker (compressed, versioned, …) is understood only by the readers that were taught about it — raftlog.FromBytes,
	// the conversion on open, the snapshot and the log dump read the same database
	for _, name := range []string{"StoreLogs", "StoreLogProto", "ConvertToProto"} {
		fi := method(name)
		if fi == nil || fi.Body() == nil {
			continue
		}
		info := fi.Info()
		for _, call := range astx.Calls(fi.Body(), false) {
			if !leveldbCall(info, call, "Put") || len(call.Args) < 2 {
				continue
			}
			val := ast.Unparen(call.Args[1])
			// the stored value is append([]byte{'p'}, <bytes>...) or the result of json.Marshal — directly, or through
			// variables all of whose definitions are of these kinds (a nil stored on an error path is judged by L5: the error
			// is returned before the Put)
			seenObj := map[types.Object]bool{}
			var classify func(e ast.Expr, depth int) []string
			classify = func(e ast.Expr, depth int) []string {
				e = ast.Unparen(e)
				if depth > 4 || e == nil {
					return []string{"value of unknown origin"}
				}
				if ap, ok := e.(*ast.CallExpr); ok && astx.Builtin(info, ap) == "append" && len(ap.Args) >= 2 {
					if cl, ok := ast.Unparen(ap.Args[0]).(*ast.CompositeLit); ok && len(cl.Elts) == 1 {
						if k, ok := astx.ConstInt(info, cl.Elts[0]); ok {
							if k == 'p' {
								return []string{"p"}
							}
							return []string{"marker " + strconvQuote(string(rune(k)))}
						}
					}
					return []string{"value of unknown origin"}
				}
				if dc, ok := e.(*ast.CallExpr); ok {
					if fn := astx.Callee(info, dc); fn != nil && fn.Name() == "Marshal" && fn.Pkg() != nil && fn.Pkg().Path() == "encoding/json" {
						return []string{"json"}
					}
					// an encoder of the module that returns 'p' + protobuf (raftlog.ToBytes next to raftlog.FromBytes)
					if fn := astx.Callee(info, dc); fn != nil && c.pEncoder(fn) {
						return []string{"p"}
					}
					return []string{"value of unknown origin"}
				}
				if id, ok := e.(*ast.Ident); ok {
					if id.Name == "nil" {
						return []string{"nil"}
					}
					obj := astx.Obj(info, id)
					if obj == nil || seenObj[obj] {
						return nil
					}
					seenObj[obj] = true
					var out []string
					for _, d := range defsOf(info, fi.Node(), obj) {
						if d == nil {
							continue
						}
						out = append(out, classify(d, depth+1)...)
					}
					if len(out) == 0 {
						return []string{"value of unknown origin"}
					}
					return out
				}
				return []string{"value of unknown origin"}
			}
			kind, badKind := "", ""
			for _, k := range classify(val, 0) {
				switch k {
				case "nil":
				case "p", "json":
					if kind == "" || kind == "json" {
						kind = k
					}
				default:
					badKind = k
				}
			}
			if badKind != "" {
				kind = badKind
			}
			if kind == "" {
				kind = "value of unknown origin"
			}
			r.Check(kind == "p" || kind == "json", "C09.L2", fi.Name(), "what is stored is 'p' + protobuf or bare JSON", c.P.Pos(call.Pos()), "encoding: "+kind,
				"an entry is stored in an encoding other than the two every reader of the database understands ("+kind+"): GetLog may have been taught about it, but raftlog.FromBytes, the conversion on open, the snapshot and the log dump read the same values — the store cannot be reopened or the entry is skipped")
		}
	}
	// the writers do not refuse what raft hands them: raft appends after a snapshot install, truncations and restarts, so the
	// indexes need not continue the store's last one; an error return other than the encoder's or the database's makes a
	// follower reject every further entry for good
	for _, name := range []string{"StoreLogs", "StoreLogProto", "StoreLog"} {
		fi := method(name)
		if fi == nil || fi.Body() == nil {
			continue
		}
		info := fi.Info()
		g := c.Graph(fi)
		okCallee := func(call *ast.CallExpr) bool {
			fn := astx.Callee(info, call)
			if fn == nil {
				return false
			}
			if fn.Name() == "Marshal" || leveldbCall(info, call, "Write", "Put") || c.pEncoder(fn) {
				return true
			}
			nm := fname(fn)
			return nm == "StoreLogs" || nm == "StoreLogProto" || nm == "WriteBatch"
		}
		for _, rv := range g.Returns() {
			rs := rv.Node.(*ast.ReturnStmt)
			if len(rs.Results) != 1 {
				continue
			}
			res := ast.Unparen(rs.Results[0])
			ok := isNilIdent(info, res)
			if call, isCall := res.(*ast.CallExpr); isCall && okCallee(call) {
				ok = true
			}
			if id, isID := res.(*ast.Ident); isID && !ok {
				// every definition of the returned variable — through error variables it was copied from — is nil, the
				// encoder's result or the database's
				seenObj := map[types.Object]bool{}
				var fromOK func(o types.Object, depth int) bool
				fromOK = func(o types.Object, depth int) bool {
					if o == nil || depth > 4 {
						return false
					}
					if seenObj[o] {
						return true
					}
					seenObj[o] = true
					defs := defsOf(info, fi.Node(), o)
					if len(defs) == 0 {
						return false
					}
					for _, d := range defs {
						if d == nil || isNilIdent(info, d) {
							continue
						}
						if call, isCall := ast.Unparen(d).(*ast.CallExpr); isCall && okCallee(call) {
							continue
						}
						if did, isIdent := ast.Unparen(d).(*ast.Ident); isIdent && fromOK(astx.Obj(info, did), depth+1) {
							continue
						}
						return false
					}
					return true
				}
				ok = fromOK(astx.Obj(info, id), 0)
			}
			r.Check(ok, "C09.L2", fi.Name(), "an entry is refused only when encoding or the database fails", c.P.Pos(rs.Pos()), "error result is nil, the encoder's or the database's",
				"the store returns an error of its own making (a validation of indexes, sizes or types): raft hands it entries whose indexes need not continue the stored ones (after a snapshot was installed, after a truncation), so a follower rejects every further entry and silently stops receiving acknowledged messages")
		}
	}
	// writers return the batch error
	for _, name := range []string{"StoreLogs", "StoreLogProto", "DeleteRange", "WriteBatch"} {
		fi := method(name)
		if fi == nil {
			continue
		}
		info := fi.Info()
		g := c.Graph(fi)
		ok := false
		for _, rv := range g.Returns() {
			rs := rv.Node.(*ast.ReturnStmt)
			if len(rs.Results) == 1 {
				isWrite := func(e ast.Expr) bool {
					for _, call := range astx.Calls(e, false) {
						if se, isSel := ast.Unparen(call.Fun).(*ast.SelectorExpr); isSel && se.Sel.Name == "Write" {
							return true
						}
					}
					return false
				}
				if isWrite(rs.Results[0]) {
					ok = true
				}
				// … or an error variable that holds it (the write wrapped in timing / counting: err := …Write(…); …; return err)
				if id, isID := ast.Unparen(rs.Results[0]).(*ast.Ident); isID && !isNilIdent(info, id) {
					seen := map[types.Object]bool{}
					var holds func(o types.Object, depth int) bool
					holds = func(o types.Object, depth int) bool {
						if o == nil || seen[o] || depth > 3 {
							return false
						}
						seen[o] = true
						for _, d := range defsOf(info, fi.Node(), o) {
							if d == nil {
								continue
							}
							if isWrite(d) {
								return true
							}
							if did, isD := ast.Unparen(d).(*ast.Ident); isD && holds(astx.Obj(info, did), depth+1) {
								return true
							}
						}
						return false
					}
					if holds(astx.Obj(info, id), 0) {
						ok = true
					}
				}
			}
		}
		// the last return (falling out of the function) must be the write
		_ = info
		r.Check(ok, "C09.L2", fi.Name(), "returns the result of writing the batch", c.P.Pos(fi.Node().Pos()), "return s.db.Write(&batch, nil)", name+" does not return the error of the LevelDB write")
	}

	// ---------- L5 error discipline of the store and the entry decoder
	{
		nErr := 0
		for _, pkg := range []string{"raftstore", "raftlog"} {
			for _, fi := range c.P.FuncsIn(pkg) {
				if fi.Body() == nil {
					continue
				}
				nErr += c.errorDiscipline("C09.L5", fi, "raft takes a nil error from its log / stable store as 'durably stored' or 'this is the entry'")
			}
		}
		r.Ok("C09.L5", "raftstore, raftlog", "error definitions inspected", "-", itoa(nErr))
		if nErr < 15 {
			r.Break("C09.L5: only %d error definitions found in raftstore/raftlog (expected >= 15)", nErr)
		}
	}

	c.errorDispositions("C09.L10", []string{"raftstore", "raftlog"}, nil, "raft takes a nil error from its log / stable store as 'durably stored' or 'this is the entry'")
	// ---------- L6 lock hygiene (a store method that returns with s.mu held blocks every later call of raft)
	{
		var ms []*load.FuncInfo
		for _, fi := range c.P.FuncsIn("raftstore") {
			if fi.Body() != nil && fi.Obj != nil {
				if sig, ok := fi.Obj.Type().(*types.Signature); ok && sig.Recv() != nil {
					ms = append(ms, fi)
				}
			}
		}
		c.lockHygiene("C09.L6", ms, "the next call of raft into the store blocks forever", "after which every call of raft into the store blocks forever")
		r.Floor("C09.L6", 20)
	}
	// ---------- L7 the key of a written entry is the encoding of that entry's index: on every path from the start of the
	// iteration (or of the function) to batch.Put(key, …) the key buffer was filled by PutUint64(key, <entry>.Index)
	for _, name := range []string{"StoreLogs", "StoreLogProto"} {
		fi := method(name)
		if fi == nil {
			continue
		}
		info := fi.Info()
		g := c.Graph(fi)
		nPut := 0
		for _, v := range g.Nodes() {
			for _, call := range astx.Calls(v.Node, false) {
				se, ok := ast.Unparen(call.Fun).(*ast.SelectorExpr)
				if !ok || se.Sel.Name != "Put" || len(call.Args) != 2 {
					continue
				}
				fn := astx.Callee(info, call)
				if fn == nil || fn.Pkg() == nil || fn.Pkg().Path() != pathLevelDB {
					continue
				}
				kid, ok := ast.Unparen(call.Args[0]).(*ast.Ident)
				if !ok {
					continue
				}
				nPut++
				key := astx.Obj(info, kid)
				isEnc := func(x int) bool {
					if g.V[x].Node == nil {
						return false
					}
					for _, c2 := range astx.Calls(g.V[x].Node, false) {
						if _, m := endianOf(info, c2); m == "PutUint64" && len(c2.Args) == 2 {
							if id, ok := ast.Unparen(c2.Args[0]).(*ast.Ident); ok && astx.Obj(info, id) == key {
								if se2, ok := ast.Unparen(c2.Args[1]).(*ast.SelectorExpr); ok && se2.Sel.Name == "Index" {
									return true
								}
							}
						}
					}
					return false
				}
				// start of the innermost enclosing loop body, else the function entry
				start := g.Entry
				var best ast.Node
				ast.Inspect(fi.Body(), func(n ast.Node) bool {
					var body *ast.BlockStmt
					switch x := n.(type) {
					case *ast.RangeStmt:
						body = x.Body
					case *ast.ForStmt:
						body = x.Body
					}
					if body != nil && body.Pos() <= call.Pos() && call.End() <= body.End() && len(body.List) > 0 {
						best = body.List[0]
					}
					return true
				})
				if best != nil {
					start = g.VertexOf(best)
				}
				ok2 := start >= 0 && (isEnc(start) || !g.Reach(start, isEnc, nil)[v.ID])
				r.Check(ok2, "C09.L7", fi.Name(), "the key of every Put was filled from the entry's index in the same iteration", c.P.Pos(call.Pos()), "PutUint64(key, <entry>.Index) on every path from the iteration start",
					"an entry can be written under a key buffer that was not (re)filled with its own index: it lands under the previous entry's key or under key 0, overwriting that entry, and GetLog / LastIndex no longer find it")
			}
		}
		if nPut == 0 {
			r.Break("C09.L7: no batch.Put found in %s", name)
		}
	}

	// ---------- L3b errors that the store (or its constructor) tells apart by identity or by type arrive unwrapped
	c.errorIdentity("C09.L3", []string{"raftstore", "raftlog"}, nil, "the store reports (or recovers from) the wrong condition: 'not found' becomes a hard failure, a corrupted manifest is not recovered")
	// ---------- L11 a torn manifest after a kill is recovered, not refused: opening falls back to RecoverFile on ErrCorrupted
	if fi := c.P.Func("raftstore.NewLevelDBStore"); fi != nil && fi.Body() != nil {
		info := fi.Info()
		g := c.Graph(fi)
		okRec := false
		for _, v := range g.Nodes() {
			for _, call := range astx.Calls(v.Node, false) {
				fn := astx.Callee(info, call)
				if fn == nil || fn.Name() != "RecoverFile" || fn.Pkg() == nil || !strings.Contains(fn.Pkg().Path(), "goleveldb") {
					continue
				}
				// reached only with an error of OpenFile, and not on the edge that excludes corruption
				for _, f := range g.FactsAt(v.ID) {
					if x, isNil, ok := nilCompare(info, f); ok && !isNil {
						if types.Identical(info.TypeOf(x), types.Universe.Lookup("error").Type()) {
							okRec = true
						}
					}
				}
			}
		}
		r.Check(okRec, "C09.L11", fi.Name(), "a database that is reported corrupted is recovered", c.P.Pos(fi.Node().Pos()), "leveldb.RecoverFile on the error edge of OpenFile",
			"NewLevelDBStore no longer falls back to leveldb.RecoverFile: after a kill that tears the last manifest record the store refuses to open, although every acknowledged entry is still in the table and journal files")
	}
	// ---------- L7b the writers report success only after the write: raft takes nil from Set / SetUint64 / StoreLogs for
	// "durable" (its current term and vote; the entries it is about to acknowledge)
	for _, mn := range []string{"Set", "SetUint64", "StoreLogs", "StoreLogProto"} {
		if fi := method(mn); fi != nil {
			c.succeedsOnlyByWriting("C09.L7", fi, mn+" can return nil without having written to LevelDB (a fast path for an 'unset', 'unchanged' or 'already stored' value): raft believes its term, its vote or an entry is durable that is not — after a restart the node votes twice in one term or has lost an acknowledged entry")
		}
	}

	// ---------- L7c the batch a writer hands to LevelDB is its own and starts empty: a batch kept between calls (a field, "to
	// avoid re-growing the buffer") still holds the entries of a call that failed half-way, and the next call writes them
	// together with its own. The batch of db.Write is a local of the function that is declared empty (var b leveldb.Batch,
	// new(leveldb.Batch), &leveldb.Batch{}), or Reset() is called on it before anything is put into it on every path.
	for _, mn := range []string{"StoreLogs", "StoreLogProto", "DeleteRange", "ConvertToProto"} {
		fi := method(mn)
		if fi == nil || fi.Body() == nil {
			continue
		}
		info := fi.Info()
		g := c.Graph(fi)
		for _, call := range astx.Calls(fi.Body(), false) {
			if !leveldbCall(info, call, "Write") || len(call.Args) < 1 {
				continue
			}
			be := ast.Unparen(call.Args[0])
			if u, ok := be.(*ast.UnaryExpr); ok && u.Op == token.AND {
				be = ast.Unparen(u.X)
			}
			own, why := false, ""
			// freshVar: a local of this function every definition of which makes an empty batch — declared without a value,
			// new(…), a literal, the address of such a local (a helper that built the batch was expanded), or nil on an error path
			var freshVar func(o types.Object, depth int) bool
			freshVar = func(o types.Object, depth int) bool {
				v, isVar := o.(*types.Var)
				if !isVar || v.IsField() || depth > 3 || !(fi.Body().Pos() <= v.Pos() && v.Pos() <= fi.Body().End()) {
					return false
				}
				for _, d := range defsOf(info, fi.Node(), v) {
					if d == nil || isNilIdent(info, d) {
						continue // var b leveldb.Batch
					}
					switch x := ast.Unparen(d).(type) {
					case *ast.CallExpr:
						if astx.Builtin(info, x) != "new" {
							return false
						}
					case *ast.UnaryExpr:
						if x.Op != token.AND {
							return false
						}
						switch y := ast.Unparen(x.X).(type) {
						case *ast.CompositeLit:
						case *ast.Ident:
							if !freshVar(astx.Obj(info, y), depth+1) {
								return false
							}
						default:
							return false
						}
					case *ast.CompositeLit:
					case *ast.Ident:
						if !freshVar(astx.Obj(info, x), depth+1) {
							return false
						}
					default:
						return false
					}
				}
				return true
			}
			if id, ok := be.(*ast.Ident); ok && freshVar(astx.Obj(info, id), 0) {
				own, why = true, "a local declared empty in this call"
			}
			if !own {
				// Reset() on the same batch dominates every Put / Delete into it
				isReset := func(x *cfgx.Vertex) bool {
					if x.Node == nil {
						return false
					}
					for _, c2 := range astx.Calls(x.Node, false) {
						if se, ok := ast.Unparen(c2.Fun).(*ast.SelectorExpr); ok && se.Sel.Name == "Reset" {
							if fn := astx.Callee(info, c2); fn != nil && fn.Pkg() != nil && fn.Pkg().Path() == pathLevelDB {
								return true
							}
						}
					}
					return false
				}
				all, n := true, 0
				for _, v := range g.Nodes() {
					for _, c2 := range astx.Calls(v.Node, false) {
						se, ok := ast.Unparen(c2.Fun).(*ast.SelectorExpr)
						if !ok || (se.Sel.Name != "Put" && se.Sel.Name != "Delete") {
							continue
						}
						if fn := astx.Callee(info, c2); fn == nil || fn.Pkg() == nil || fn.Pkg().Path() != pathLevelDB || astx.RecvNamed(fn) == nil || astx.RecvNamed(fn).Obj().Name() != "Batch" {
							continue
						}
						n++
						if !g.DominatedBy(v.ID, isReset) {
							all = false
						}
					}
				}
				if all && n > 0 {
					own, why = true, "Reset() before anything is put into it"
				}
			}
			r.Check(own, "C09.L7", fi.Name(), "the batch written starts empty", c.P.Pos(call.Pos()), why,
				mn+" writes a batch that is not created (or reset) in this call: what an earlier call put into it and did not write — it returned early on an error — is written now, under this call's success")
		}
	}

	// ---------- L9 iterator discipline
	{
		nPos := 0
		for _, fi := range c.P.FuncsIn("raftstore") {
			if fi.Body() != nil {
				nPos += c.iteratorDiscipline("C09.L9", fi)
			}
		}
		r.Ok("C09.L9", "raftstore", "iterator positioning calls inspected", "-", itoa(nPos))
		if nPos < 8 {
			r.Break("C09.L9: only %d iterator positioning calls found in raftstore (expected >= 8)", nPos)
		}
	}
	// ---------- L8 the JSON -> protobuf conversion on open
	if fi := method("ConvertToProto"); fi != nil {
		c.c09Convert(fi)
	}

	// ---------- L4 interval convention
	gbi := method("GetBulkIterator")
	if gbi != nil {
		info := gbi.Info()
		var params []types.Object
		for _, fld := range gbi.FuncType().Params.List {
			for _, nm := range fld.Names {
				params = append(params, info.Defs[nm])
			}
		}
		deps := flowx.Compute(info, gbi.Node())
		okRange := false
		for _, cl := range compositeLitsOfAny(info, gbi.Body(), "github.com/syndtr/goleveldb/leveldb/util") {
			st, li := litField(cl, "Start"), litField(cl, "Limit")
			if st != nil && li != nil && len(params) == 2 {
				ds, dl := deps.Of(st), deps.Of(li)
				if ds[params[0]] && !ds[params[1]] && dl[params[1]] && !dl[params[0]] {
					okRange = true
				}
			}
		}
		// … and each bound is the big-endian encoding of its parameter, written on every path before the range is built
		if len(params) == 2 {
			gg := c.Graph(gbi)
			for _, cl := range compositeLitsOfAny(info, gbi.Body(), "github.com/syndtr/goleveldb/leveldb/util") {
				lv := gg.VertexOf(cl)
				for k, fld := range []string{"Start", "Limit"} {
					val := litField(cl, fld)
					if val == nil {
						continue
					}
					kid, ok := ast.Unparen(val).(*ast.Ident)
					okEnc := false
					if ok && lv >= 0 {
						key := astx.Obj(info, kid)
						okEnc = gg.DominatedBy(lv, func(x *cfgx.Vertex) bool {
							if x.Node == nil {
								return false
							}
							for _, c2 := range astx.Calls(x.Node, false) {
								if en, m := endianOf(info, c2); m == "PutUint64" && en == "BigEndian" && len(c2.Args) == 2 {
									if id, ok := ast.Unparen(c2.Args[0]).(*ast.Ident); ok && astx.Obj(info, id) == key {
										if pid, ok := ast.Unparen(stripConv(info, c2.Args[1])).(*ast.Ident); ok && astx.Obj(info, pid) == params[k] {
											return true
										}
									}
								}
							}
							return false
						})
					}
					r.Check(okEnc, "C09.L4", gbi.Name(), "bound "+fld+" is the big-endian encoding of its parameter", c.P.Pos(val.Pos()), "binary.BigEndian.PutUint64(<key>, <param>) dominates the range",
						"the "+fld+" key of the bulk range is not filled with the big-endian encoding of the parameter on every path: the range starts at key 0 / ends at key 0, so DeleteRange and the snapshot iterate the wrong entries")
				}
			}
		}
		r.Check(okRange, "C09.L4", gbi.Name(), "range is [start, limit)", c.P.Pos(gbi.Node().Pos()), "util.Range{Start: f(start), Limit: f(limit)}", "GetBulkIterator does not build the LevelDB range from start and limit in that order")
		n := 0
		// half-open functions: GetBulkIterator, and any function that hands its own (never reassigned) parameter on as the
		// limit — its callers are held to the rule instead
		type halfOpen struct {
			fn  *types.Func
			arg int
		}
		work := []halfOpen{{gbi.Obj, 1}}
		seenHO := map[*types.Func]bool{gbi.Obj: true}
		for len(work) > 0 {
			ho := work[0]
			work = work[1:]
			for _, fi := range c.P.AllFuncs {
				for _, call := range callsIn(fi, func(fn *types.Func, _ *ast.CallExpr) bool { return fn == ho.fn }) {
					n++
					ok := false
					why := load.FuncName(ho.fn) + "(lo, hi+1)"
					if ho.arg < len(call.Args) {
						if be, isBE := ast.Unparen(call.Args[ho.arg]).(*ast.BinaryExpr); isBE && be.Op == token.ADD {
							if v, isC := astx.ConstInt(fi.Info(), be.Y); isC && v == 1 {
								ok = true
							}
							if v, isC := astx.ConstInt(fi.Info(), be.X); isC && v == 1 {
								ok = true
							}
						}
						if id, isID := ast.Unparen(call.Args[ho.arg]).(*ast.Ident); isID && !ok && fi.Obj != nil {
							po := astx.Obj(fi.Info(), id)
							k := 0
							for _, fld := range fi.FuncType().Params.List {
								for _, nm := range fld.Names {
									if fi.Info().Defs[nm] == po && po != nil && len(defsOfIn(fi.Info(), fi.Body(), po)) == 0 {
										ok, why = true, "forwards its own exclusive limit (its callers are checked)"
										if !seenHO[fi.Obj] {
											seenHO[fi.Obj] = true
											work = append(work, halfOpen{fi.Obj, k})
										}
									}
									k++
								}
							}
						}
					}
					r.Check(ok, "C09.L4", fi.Name(), "passes its inclusive upper bound + 1", c.P.Pos(call.Pos()), why, "the caller hands its inclusive upper bound to the half-open "+load.FuncName(ho.fn)+" without adding 1: the last entry is silently left out (not deleted / not persisted / not listed)")
				}
			}
		}
		r.Check(n >= 5, "C09.L4", gbi.Name(), "callers enumerated", c.P.Pos(gbi.Node().Pos()), itoa(n), "fewer callers of GetBulkIterator than expected")
	}
	if fi := method("DeleteRange"); fi != nil {
		info := fi.Info()
		// iterator over (min, max+1) with min/max the parameters in order; every key deleted
		var params []types.Object
		for _, fld := range fi.FuncType().Params.List {
			for _, nm := range fld.Names {
				params = append(params, info.Defs[nm])
			}
		}
		okArgs := false
		for _, call := range callsIn(fi, func(fn *types.Func, _ *ast.CallExpr) bool { return gbi != nil && fn == gbi.Obj }) {
			if len(call.Args) == 2 && len(params) == 2 {
				a0, ok0 := ast.Unparen(call.Args[0]).(*ast.Ident)
				be, ok1 := ast.Unparen(call.Args[1]).(*ast.BinaryExpr)
				if ok0 && ok1 && astx.Obj(info, a0) == params[0] {
					if id, ok := ast.Unparen(be.X).(*ast.Ident); ok && astx.Obj(info, id) == params[1] {
						okArgs = true
					}
				}
			}
		}
		r.Check(okArgs, "C09.L4", fi.Name(), "covers [min, max]", c.P.Pos(fi.Node().Pos()), "GetBulkIterator(min, max+1)", "DeleteRange does not iterate exactly the inclusive range [min, max]")
		okDel := false
		ast.Inspect(fi.Body(), func(n ast.Node) bool {
			fs, ok := n.(*ast.ForStmt)
			if !ok {
				return true
			}
			for _, st := range fs.Body.List {
				if es, ok := st.(*ast.ExprStmt); ok {
					if call, ok := es.X.(*ast.CallExpr); ok {
						if se, ok := ast.Unparen(call.Fun).(*ast.SelectorExpr); ok && se.Sel.Name == "Delete" {
							okDel = true
						}
					}
				}
			}
			return true
		})
		// every position the iterator takes is deleted before the iterator moves on: no path from one First()/Next() to
		// the next Next() avoids batch.Delete(iterator.Key())
		{
			info := fi.Info()
			g := c.Graph(fi)
			isIterCall := func(n ast.Node, names ...string) bool {
				found := false
				if n == nil {
					return false
				}
				for _, call := range astx.Calls(n, false) {
					se, ok := ast.Unparen(call.Fun).(*ast.SelectorExpr)
					if !ok {
						continue
					}
					fn := astx.Callee(info, call)
					if fn == nil || fn.Pkg() == nil || !strings.Contains(fn.Pkg().Path(), "goleveldb") {
						continue
					}
					for _, nm := range names {
						if se.Sel.Name == nm {
							found = true
						}
					}
				}
				return found
			}
			var adv, del []int
			for _, v := range g.Nodes() {
				if isIterCall(v.Node, "Next", "First") {
					adv = append(adv, v.ID)
				}
				if isIterCall(v.Node, "Delete") && isIterCall(v.Node, "Key") {
					del = append(del, v.ID)
				}
			}
			isDel := func(x int) bool {
				for _, d := range del {
					if d == x {
						return true
					}
				}
				return false
			}
			skipped := false
			for _, a := range adv {
				for _, e := range g.V[a].Succ {
					reach := g.Reach(e.To, isDel, nil)
					for _, b := range adv {
						if isIterCall(g.V[b].Node, "Next") && (reach[b] || b == e.To) && !isDel(e.To) {
							skipped = true
						}
					}
				}
			}
			r.Check(!skipped && len(adv) >= 2 && len(del) >= 1, "C09.L4", fi.Name(), "no key is stepped over", c.P.Pos(fi.Node().Pos()), "every path from First()/Next() to the next Next() passes batch.Delete(iterator.Key())",
				"the iterator is advanced twice without the key in between being deleted (e.g. an extra Next() after flushing a partial batch): entries inside the range survive DeleteRange, so raft finds stale entries after a truncation or compaction")
		}
		// the loop is left only when the iterator is exhausted: its exit edge implies that the continuation flag / the iterator's
		// own result is false (a further conjunct such as a batch-size limit leaves part of the range behind)
		{
			info := fi.Info()
			g := c.Graph(fi)
			ast.Inspect(fi.Body(), func(n ast.Node) bool {
				fs, ok := n.(*ast.ForStmt)
				if !ok || fs.Cond == nil {
					return true
				}
				hasDel := false
				for _, call := range astx.Calls(fs.Body, false) {
					if se, ok := ast.Unparen(call.Fun).(*ast.SelectorExpr); ok && se.Sel.Name == "Delete" {
						hasDel = true
					}
				}
				if !hasDel {
					return true
				}
				// exit edge = the false edge of the loop condition
				okExit := implied(c.clausesOf(info, fi.Node(), fs.Cond, false, 0), func(l lit) bool {
					if l.Pos {
						return false
					}
					switch x := ast.Unparen(l.E).(type) {
					case *ast.Ident:
						// a flag assigned only from iterator.First()/Next()
						defs := defsOf(info, fi.Node(), astx.Obj(info, x))
						if len(defs) == 0 {
							return false
						}
						for _, d := range defs {
							call, ok := ast.Unparen(d).(*ast.CallExpr)
							if d == nil || !ok {
								return false
							}
							se, ok := ast.Unparen(call.Fun).(*ast.SelectorExpr)
							if !ok || (se.Sel.Name != "Next" && se.Sel.Name != "First") {
								return false
							}
						}
						return true
					case *ast.CallExpr:
						se, ok := ast.Unparen(x.Fun).(*ast.SelectorExpr)
						return ok && (se.Sel.Name == "Next" || se.Sel.Name == "Valid")
					}
					return false
				})
				_ = g
				r.Check(okExit, "C09.L4", fi.Name(), "the delete loop ends only when the iterator is exhausted", c.P.Pos(fs.Cond.Pos()), "the loop's exit edge implies !<iterator has more>",
					"DeleteRange can leave its loop before the iterator is exhausted (an extra condition such as a batch-size limit): entries at the end of the range survive — after a truncation of a conflicting suffix raft finds stale entries, after a compaction the log copy keeps folded ones")
				return true
			})
		}
		r.Check(okDel, "C09.L4", fi.Name(), "deletes every key of the range", c.P.Pos(fi.Node().Pos()), "unconditional batch.Delete(iterator.Key()) in the loop", "DeleteRange does not delete every key the iterator yields")
	}
	var _ = cfgx.NoReturn
}

// c09Convert (L8): ConvertToProto re-encodes every JSON entry in place. Necessary conditions for "after a JSON-to-protobuf
// conversion the look-ups return the same entries, decoding to the same replicated message":
//
//	(a) an entry that was re-encoded is put back before the iterator moves on or the function ends (error exits excepted);
//	(b) what is put under the entry's key is the encoding of the raft.Log envelope (proto.Marshal of the pb.RaftLog), not
//	    a value left over from an earlier step;
//	(c) the payload is re-encoded only for command entries, from the message decoded in this iteration
//	    (NewMessageFromBytes -> CopyToProtoMessage -> Marshal);
//	(d) every way back to the loop head advances the iterator, and where the iterator is exhausted the loop is left.
func (c *Ctx) c09Convert(fi *load.FuncInfo) {
	r := c.R
	info := fi.Info()
	g := c.Graph(fi)
	isPB := func(e ast.Expr, name string) bool {
		t := info.TypeOf(e)
		if p, ok := t.(*types.Pointer); ok {
			t = p.Elem()
		}
		return astx.IsNamed(t, pathProto, name)
	}
	marshalOf := func(n ast.Node, name string) *ast.CallExpr {
		if n == nil {
			return nil
		}
		for _, call := range astx.Calls(n, false) {
			fn := astx.Callee(info, call)
			if fn != nil && fn.Name() == "Marshal" && fn.Pkg() != nil && strings.HasSuffix(fn.Pkg().Path(), "/proto") && len(call.Args) == 1 && isPB(call.Args[0], name) {
				return call
			}
		}
		return nil
	}
	isLevelCall := func(n ast.Node, names ...string) bool {
		if n == nil {
			return false
		}
		for _, call := range astx.Calls(n, false) {
			se, ok := ast.Unparen(call.Fun).(*ast.SelectorExpr)
			if !ok {
				continue
			}
			fn := astx.Callee(info, call)
			if fn == nil || fn.Pkg() == nil || !strings.Contains(fn.Pkg().Path(), "goleveldb") {
				continue
			}
			for _, nm := range names {
				if se.Sel.Name == nm {
					return true
				}
			}
		}
		return false
	}
	isPut := func(x int) bool { return isLevelCall(g.V[x].Node, "Put") }
	isNext := func(x int) bool { return isLevelCall(g.V[x].Node, "Next") }
	errEdge := func(e *cfgx.Edge) bool {
		if e.Cond == nil {
			return false
		}
		x, isNil, ok := nilCompare(info, cfgx.Fact{Expr: e.Cond, Val: e.Val})
		if !ok || isNil {
			return false
		}
		t := info.TypeOf(x)
		return t != nil && types.Identical(t, types.Universe.Lookup("error").Type())
	}
	// (a)
	nEnv := 0
	for _, v := range g.Nodes() {
		call := marshalOf(v.Node, "RaftLog")
		if call == nil {
			continue
		}
		nEnv++
		reach := g.Reach(v.ID, isPut, errEdge)
		bad := reach[g.Exit]
		for x := range g.V {
			if reach[x] && x != v.ID && isNext(x) {
				bad = true
			}
		}
		r.Check(!bad, "C09.L8", fi.Name(), "a re-encoded entry is put back before the iterator moves on", c.P.Pos(call.Pos()), "every non-error path from the Marshal of the envelope passes batch.Put",
			"an entry is re-encoded but not written back on some path: it stays in the old encoding or, with the marker already assumed, is lost to the readers")
	}
	if nEnv < 2 {
		r.Break("C09.L8: only %d Marshal(pb.RaftLog) calls found in ConvertToProto (expected 2: non-command and command entries)", nEnv)
	}
	// (b)
	for _, v := range g.Nodes() {
		if !isPut(v.ID) {
			continue
		}
		var put *ast.CallExpr
		for _, call := range astx.Calls(v.Node, false) {
			if se, ok := ast.Unparen(call.Fun).(*ast.SelectorExpr); ok && se.Sel.Name == "Put" && len(call.Args) == 2 {
				put = call
			}
		}
		if put == nil {
			continue
		}
		// the value: append([]byte{'p'}, v...) or v
		var vid *ast.Ident
		ast.Inspect(put.Args[1], func(n ast.Node) bool {
			if id, ok := n.(*ast.Ident); ok {
				if _, isVar := astx.Obj(info, id).(*types.Var); isVar {
					vid = id
				}
			}
			return true
		})
		okVal := false
		why := "value is not a local"
		if vid != nil {
			obj := astx.Obj(info, vid)
			var defs []int
			for _, d := range g.Nodes() {
				if as, ok := d.Node.(*ast.AssignStmt); ok {
					for _, l := range as.Lhs {
						if id, ok := l.(*ast.Ident); ok && astx.Obj(info, id) == obj {
							defs = append(defs, d.ID)
						}
					}
				}
			}
			isDef := func(x int) bool {
				for _, d := range defs {
					if d == x {
						return true
					}
				}
				return false
			}
			okVal, why = len(defs) > 0, "every definition reaching the Put is proto.Marshal of the pb.RaftLog"
			for _, d := range defs {
				reaches := false
				for _, e := range g.V[d].Succ {
					if e.To == v.ID || g.Reach(e.To, isDef, nil)[v.ID] {
						reaches = true
					}
				}
				if reaches && marshalOf(g.V[d].Node, "RaftLog") == nil {
					// … or the marker prepended to a variable every definition of which is that encoding (a shared
					// marshal helper expanded here); the nil of the helper's error path never reaches the Put (L5)
					viaVar := false
					if as, ok := g.V[d].Node.(*ast.AssignStmt); ok && len(as.Lhs) == len(as.Rhs) {
						for i, l := range as.Lhs {
							id, ok := l.(*ast.Ident)
							if !ok || astx.Obj(info, id) != obj {
								continue
							}
							rhs := ast.Unparen(as.Rhs[i])
							if isNilIdent(info, rhs) {
								viaVar = true
							}
							if ap, ok := rhs.(*ast.CallExpr); ok && astx.Builtin(info, ap) == "append" && len(ap.Args) == 2 && ap.Ellipsis.IsValid() {
								if xid, ok := ast.Unparen(ap.Args[1]).(*ast.Ident); ok {
									xdefs := defsOf(info, fi.Node(), astx.Obj(info, xid))
									all := len(xdefs) > 0
									for _, xd := range xdefs {
										if xd == nil || marshalOf(xd, "RaftLog") == nil {
											all = false
										}
									}
									viaVar = viaVar || all
								}
							}
						}
					}
					if !viaVar {
						okVal, why = false, "a definition at "+c.P.Pos(g.V[d].Node.Pos())+" that is not the envelope encoding reaches the Put"
					}
				}
			}
		}
		r.Check(okVal, "C09.L8", fi.Name(), "what is put back is the encoded raft.Log envelope", c.P.Pos(put.Pos()), why,
			"the value written under the entry's key is not the protobuf encoding of the pb.RaftLog built in this iteration ("+why+"): GetLog decodes something else, e.g. the bare payload as an envelope")
	}
	// (c)
	nMsg := 0
	for _, v := range g.Nodes() {
		call := marshalOf(v.Node, "RobustMessage")
		if call == nil {
			continue
		}
		nMsg++
		var loopStart = -1
		ast.Inspect(fi.Body(), func(n ast.Node) bool {
			if fs, ok := n.(*ast.ForStmt); ok && fs.Body.Pos() <= call.Pos() && call.End() <= fs.Body.End() && len(fs.Body.List) > 0 {
				loopStart = g.VertexOf(fs.Body.List[0])
			}
			return true
		})
		isCopy := func(x int) bool {
			if g.V[x].Node == nil {
				return false
			}
			for _, c2 := range astx.Calls(g.V[x].Node, false) {
				if fn := astx.Callee(info, c2); fn != nil && fname(fn) == "CopyToProtoMessage" && len(c2.Args) == 1 && astx.Same(info, c2.Args[0], call.Args[0]) {
					return true
				}
			}
			return false
		}
		okCopy := loopStart >= 0 && !g.Reach(loopStart, isCopy, nil)[v.ID]
		r.Check(okCopy, "C09.L8", fi.Name(), "the payload encoded is the message decoded in this iteration", c.P.Pos(call.Pos()), "CopyToProtoMessage into the same value on every path from the iteration start",
			"the protobuf payload is marshalled from a value that was not filled from this entry's message on some path: the entry gets the previous entry's payload (or an empty one)")
		okCmd := false
		for _, f := range g.FactsAt(v.ID) {
			if be, ok := ast.Unparen(f.Expr).(*ast.BinaryExpr); ok && f.Tag == nil && (refersTo(info, be.Y, pathRaft, "LogCommand") || refersTo(info, be.X, pathRaft, "LogCommand")) {
				if (be.Op == token.NEQ && !f.Val) || (be.Op == token.EQL && f.Val) {
					okCmd = true
				}
			}
		}
		r.Check(okCmd, "C09.L8", fi.Name(), "only command entries have their payload re-encoded", c.P.Pos(call.Pos()), "dominated by Type == raft.LogCommand",
			"the payload of a non-command entry (configuration change, barrier, no-op) is decoded as a robust.Message and re-encoded: its data is replaced by an encoded empty message and raft loses the membership change")
	}
	if nMsg < 1 {
		r.Break("C09.L8: no Marshal(pb.RobustMessage) found in ConvertToProto")
	}
	// (d)
	ast.Inspect(fi.Body(), func(n ast.Node) bool {
		fs, ok := n.(*ast.ForStmt)
		if !ok || len(fs.Body.List) == 0 || marshalOfAny(info, fs.Body) == 0 {
			return true
		}
		start := g.VertexOf(fs.Body.List[0])
		condV := -1
		if fs.Cond != nil {
			condV = g.VertexAt(fs.Cond.Pos(), fs.Cond.End())
		}
		head := condV
		if head < 0 {
			head = start
		}
		// every way from the body start back to the head passes Next()
		back := false
		if start >= 0 {
			reach := g.Reach(start, func(x int) bool { return isNext(x) || x == head }, nil)
			for x := range g.V {
				if !reach[x] && x != start {
					continue
				}
				for _, e := range g.V[x].Succ {
					if e.To == head && !isNext(x) {
						back = true
					}
				}
			}
		}
		r.Check(start >= 0 && !back, "C09.L8", fi.Name(), "every way back to the loop head advances the iterator", c.P.Pos(fs.Pos()), "i.Next() on every path from the body start to the next iteration",
			"the conversion loop can start its next iteration without having advanced the iterator: it converts the same entry forever and the store never opens")
		// where Next() says false the loop is left
		for _, v := range g.V {
			for _, e := range v.Succ {
				if e.Cond == nil || !(fs.Body.Pos() <= e.Cond.Pos() && e.Cond.End() <= fs.Body.End()) {
					continue
				}
				exhausted := false
				for _, cl := range c.clausesOf(info, fi.Node(), e.Cond, e.Val, 0) {
					if len(cl) == 1 && !cl[0].Pos {
						if call, ok := ast.Unparen(cl[0].E).(*ast.CallExpr); ok && isLevelCall(call, "Next") {
							exhausted = true
						}
					}
				}
				if !exhausted {
					continue
				}
				again := e.To == start || g.Reach(e.To, nil, nil)[start]
				r.Check(!again, "C09.L8", fi.Name(), "the loop is left where the iterator is exhausted", c.P.Pos(e.Cond.Pos()), "no path from the Next()==false edge back into the loop body",
					"after Next() returned false the loop body runs again on an invalid iterator: the empty value does not decode, ConvertToProto returns an error and the store cannot be opened")
			}
		}
		return true
	})
}

func marshalOfAny(info *types.Info, n ast.Node) int {
	k := 0
	for _, call := range astx.Calls(n, false) {
		if fn := astx.Callee(info, call); fn != nil && fn.Name() == "Marshal" && fn.Pkg() != nil && strings.HasSuffix(fn.Pkg().Path(), "/proto") {
			k++
		}
	}
	return k
}

func strconvQuote(s string) string { return "\"" + s + "\"" }
