package rules

import (
	"go/ast"
	"go/token"
	"go/types"
	"sort"

	"verif/checker/internal/astx"
	"verif/checker/internal/flowx"
	"verif/checker/internal/load"
)

// fieldFlow summarises, for a set of functions, which struct fields are read
// and, for every struct field that is written (composite-literal key,
// assignment, index assignment, append), what the stored value depends on.
type fieldFlow struct {
	reads    flowx.Set                  // fields read (rvalue selections)
	writes   map[*types.Var]flowx.Set   // written field -> dependences of stored values
	writePos map[*types.Var]token.Pos   // first write position
	readPos  map[types.Object]token.Pos // first read position
	lits     map[*types.Named]int       // composite literals per named struct type
}

func newFieldFlow() *fieldFlow {
	return &fieldFlow{reads: flowx.Set{}, writes: map[*types.Var]flowx.Set{}, writePos: map[*types.Var]token.Pos{}, readPos: map[types.Object]token.Pos{}, lits: map[*types.Named]int{}}
}

func (ff *fieldFlow) addWrite(f *types.Var, deps flowx.Set, pos token.Pos) {
	if f == nil {
		return
	}
	s := ff.writes[f]
	if s == nil {
		s = flowx.Set{}
		ff.writes[f] = s
		ff.writePos[f] = pos
	}
	for o := range deps {
		s[o] = true
	}
}

// lhsField returns the field written by an assignment target: x.F, x.F[k], x.F[k][j], *x.F.
func lhsField(info *types.Info, e ast.Expr) (*types.Var, []ast.Expr) {
	var idx []ast.Expr
	for {
		switch x := ast.Unparen(e).(type) {
		case *ast.IndexExpr:
			idx = append(idx, x.Index)
			e = x.X
			continue
		case *ast.StarExpr:
			e = x.X
			continue
		case *ast.SelectorExpr:
			return astx.FieldSel(info, x), idx
		}
		return nil, nil
	}
}

// collectFieldFlow analyses one function (or function literal) body.
func collectFieldFlow(ff *fieldFlow, info *types.Info, root ast.Node) {
	deps := flowx.Compute(info, root)
	pureLHS := map[*ast.SelectorExpr]bool{}
	withConds := func(n ast.Node, s flowx.Set) flowx.Set {
		for _, c := range flowx.CondsAt(root, n) {
			for o := range deps.Of(c) {
				s[o] = true
			}
		}
		return s
	}
	ast.Inspect(root, func(n ast.Node) bool {
		switch x := n.(type) {
		case *ast.AssignStmt:
			for i, l := range x.Lhs {
				f, idx := lhsField(info, l)
				if f == nil {
					continue
				}
				if se, ok := ast.Unparen(l).(*ast.SelectorExpr); ok {
					pureLHS[se] = true
				} else {
					// x.F[k] = v : the selector is only used to locate the container
					e := l
					for {
						if ie, ok := ast.Unparen(e).(*ast.IndexExpr); ok {
							e = ie.X
							continue
						}
						break
					}
					if se, ok := ast.Unparen(e).(*ast.SelectorExpr); ok {
						pureLHS[se] = true
					}
				}
				s := flowx.Set{}
				if len(x.Lhs) == len(x.Rhs) {
					for o := range deps.Of(x.Rhs[i]) {
						s[o] = true
					}
				} else {
					for _, r := range x.Rhs {
						for o := range deps.Of(r) {
							s[o] = true
						}
					}
				}
				for _, k := range idx {
					for o := range deps.Of(k) {
						s[o] = true
					}
				}
				ff.addWrite(f, withConds(x, s), x.Pos())
			}
		case *ast.IncDecStmt:
			if f, _ := lhsField(info, x.X); f != nil {
				ff.addWrite(f, withConds(x, flowx.Set{}), x.Pos())
			}
		case *ast.CompositeLit:
			tv, ok := info.Types[x]
			if !ok {
				return true
			}
			named := astx.NamedOf(tv.Type)
			st, ok := tv.Type.Underlying().(*types.Struct)
			if !ok {
				return true
			}
			if named != nil {
				ff.lits[named]++
			}
			for i, el := range x.Elts {
				var f *types.Var
				var val ast.Expr
				if kv, ok := el.(*ast.KeyValueExpr); ok {
					if id, ok := kv.Key.(*ast.Ident); ok {
						f, _ = info.Uses[id].(*types.Var)
						if f == nil {
							for j := 0; j < st.NumFields(); j++ {
								if st.Field(j).Name() == id.Name {
									f = st.Field(j)
								}
							}
						}
					}
					val = kv.Value
				} else if i < st.NumFields() {
					f = st.Field(i)
					val = el
				}
				if f != nil {
					ff.addWrite(f, withConds(x, deps.Of(val)), el.Pos())
				}
			}
		}
		return true
	})
	ast.Inspect(root, func(n ast.Node) bool {
		if se, ok := n.(*ast.SelectorExpr); ok && !pureLHS[se] {
			if f := astx.FieldSel(info, se); f != nil {
				if !ff.reads[f] {
					ff.reads[f] = true
					ff.readPos[f] = se.Pos()
				}
			}
		}
		return true
	})
}

func flowOfFuncs(fns []*load.FuncInfo) *fieldFlow {
	ff := newFieldFlow()
	for _, fi := range fns {
		if fi == nil || fi.Body() == nil {
			continue
		}
		collectFieldFlow(ff, fi.Pkg.TypesInfo, fi.Node())
	}
	return ff
}

// structClosure returns the named struct types reachable from root through
// fields (pointers, slices, maps, arrays), restricted by keep.
func structClosure(root *types.Named, keep func(*types.Named) bool) []*types.Named {
	seen := map[*types.Named]bool{}
	var order []*types.Named
	var visit func(t types.Type)
	visit = func(t types.Type) {
		switch x := t.(type) {
		case *types.Pointer:
			visit(x.Elem())
		case *types.Slice:
			visit(x.Elem())
		case *types.Array:
			visit(x.Elem())
		case *types.Map:
			visit(x.Key())
			visit(x.Elem())
		case *types.Alias:
			visit(types.Unalias(x))
		case *types.Named:
			if seen[x] {
				return
			}
			st, ok := x.Underlying().(*types.Struct)
			if !ok {
				return
			}
			if !keep(x) {
				return
			}
			seen[x] = true
			order = append(order, x)
			for i := 0; i < st.NumFields(); i++ {
				visit(st.Field(i).Type())
			}
		}
	}
	visit(root)
	return order
}

func structFields(n *types.Named) []*types.Var {
	st, ok := n.Underlying().(*types.Struct)
	if !ok {
		return nil
	}
	var out []*types.Var
	for i := 0; i < st.NumFields(); i++ {
		out = append(out, st.Field(i))
	}
	return out
}

func fieldName(n *types.Named, f *types.Var) string {
	pkg := ""
	if n.Obj().Pkg() != nil {
		pkg = load.ShortPkg(n.Obj().Pkg().Path()) + "."
	}
	return pkg + n.Obj().Name() + "." + fieldCanon(f)
}

// fieldCanon is the name the rules know a field by (set per run to Program.FieldName: renamed anchor fields keep their recorded name).
var fieldCanon = func(f *types.Var) string { return f.Name() }

// fieldOwnerCanon: the struct name the rules know a re-identified field under ("" when the field is where they expect it).
var fieldOwnerCanon = func(f *types.Var) string { return "" }

// fieldsIn returns those objects of s that are struct fields of one of the given types.
func fieldsIn(s flowx.Set, owner map[*types.Var]*types.Named) []*types.Var {
	var out []*types.Var
	for o := range s {
		if v, ok := o.(*types.Var); ok {
			if _, ok := owner[v]; ok {
				out = append(out, v)
			}
		}
	}
	sort.Slice(out, func(i, j int) bool { return out[i].Name() < out[j].Name() })
	return out
}

func isMutexType(t types.Type) bool {
	n := astx.NamedOf(t)
	if n == nil || n.Obj().Pkg() == nil {
		return false
	}
	return n.Obj().Pkg().Path() == "sync"
}

// calleesIn lists functions called inside the expressions a value depends on.
func funcsIn(s flowx.Set) []*types.Func {
	var out []*types.Func
	for o := range s {
		if f, ok := o.(*types.Func); ok {
			out = append(out, f)
		}
	}
	sort.Slice(out, func(i, j int) bool { return out[i].FullName() < out[j].FullName() })
	return out
}

// funcFlow returns the cached field flow of one function.
func (c *Ctx) funcFlow(fi *load.FuncInfo) *fieldFlow {
	if c.flows == nil {
		c.flows = map[*load.FuncInfo]*fieldFlow{}
	}
	if ff, ok := c.flows[fi]; ok {
		return ff
	}
	ff := newFieldFlow()
	if fi.Body() != nil {
		collectFieldFlow(ff, fi.Info(), fi.Node())
	}
	c.flows[fi] = ff
	return ff
}

// writersOf lists module functions that write struct field f (literal key, assignment, index assignment, inc/dec).
func (c *Ctx) writersOf(f *types.Var) []*load.FuncInfo {
	var out []*load.FuncInfo
	for _, fi := range c.P.AllFuncs {
		if _, ok := c.funcFlow(fi).writes[f]; ok {
			out = append(out, fi)
		}
	}
	return out
}

// readersOf lists module functions that read struct field f.
func (c *Ctx) readersOf(f *types.Var) []*load.FuncInfo {
	var out []*load.FuncInfo
	for _, fi := range c.P.AllFuncs {
		if c.funcFlow(fi).reads[f] {
			out = append(out, fi)
		}
	}
	return out
}

func funcNames(fs []*load.FuncInfo) []string {
	var out []string
	for _, f := range fs {
		out = append(out, f.Name())
	}
	sort.Strings(out)
	return out
}
