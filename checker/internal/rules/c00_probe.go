package rules
