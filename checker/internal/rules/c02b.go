package rules

import (
	"go/ast"
	"go/token"
	"go/types"

	"verif/checker/internal/astx"
	"verif/checker/internal/cfgx"
	"verif/checker/internal/load"
)

// Rules found by the statement-level sweep of package main (every variant of every function judged by all rule sets; the
// silent variants that break compaction / restore were turned into rules). All are path rules on the statement CFG.

// factSays reports whether some fact that holds at vertex v compares a and b for (in)equality with the given outcome,
// where isA / isB recognise the two operands.
func factEq(g *cfgx.Graph, v int, want bool, isA, isB func(ast.Expr) bool) bool {
	for _, f := range g.FactsAt(v) {
		if f.Tag != nil {
			// switch <tag> { case <expr>: }
			if (isA(f.Tag) && isB(f.Expr)) || (isA(f.Expr) && isB(f.Tag)) {
				if f.Val == want {
					return true
				}
			}
			continue
		}
		be, ok := ast.Unparen(f.Expr).(*ast.BinaryExpr)
		if !ok || (be.Op != token.EQL && be.Op != token.NEQ) {
			continue
		}
		if !((isA(be.X) && isB(be.Y)) || (isA(be.Y) && isB(be.X))) {
			continue
		}
		eq := (be.Op == token.EQL) == f.Val
		if eq == want {
			return true
		}
	}
	return false
}

func (c *Ctx) c02Sweep(snap *load.FuncInfo) {
	r := c.R
	// ---------- N3b: Apply persists and applies exactly the command entries
	if ap := c.MustFunc("main.(*FSM).Apply"); ap != nil && ap.Body() != nil {
		info := ap.Info()
		g := c.Graph(ap)
		var lp types.Object
		for _, fld := range ap.FuncType().Params.List {
			for _, nm := range fld.Names {
				lp = info.Defs[nm]
			}
		}
		isType := func(e ast.Expr) bool {
			se, ok := ast.Unparen(e).(*ast.SelectorExpr)
			if !ok || se.Sel.Name != "Type" {
				return false
			}
			id, ok := ast.Unparen(se.X).(*ast.Ident)
			return ok && astx.Obj(info, id) == lp
		}
		isCmd := func(e ast.Expr) bool { return refersTo(info, e, pathRaft, "LogCommand") }
		n := 0
		for _, v := range g.Nodes() {
			for _, call := range astx.Calls(v.Node, false) {
				fn := astx.Callee(info, call)
				if fn == nil {
					continue
				}
				nm := fname(fn)
				if nm != "applyProto" && nm != "StoreLogProto" && nm != "StoreLog" {
					continue
				}
				n++
				r.Check(factEq(g, v.ID, true, isType, isCmd), "C02.N3", ap.Name(), nm+" runs for command entries", c.P.Pos(call.Pos()), "dominated by l.Type == raft.LogCommand",
					"Apply persists / applies an entry on a path that has not established that it is a command entry — with the filter inverted, every client message is skipped and raft's own entries are fed to the IRC state machine")
			}
		}
		for _, rv := range g.Returns() {
			rs := rv.Node.(*ast.ReturnStmt)
			if len(rs.Results) == 1 && isNilIdent(info, rs.Results[0]) {
				r.Check(factEq(g, rv.ID, false, isType, isCmd), "C02.N3", ap.Name(), "only non-command entries are skipped", c.P.Pos(rs.Pos()), "return nil dominated by l.Type != raft.LogCommand",
					"Apply returns without persisting or applying an entry that may be a command entry")
			}
		}
		if n < 2 {
			r.Break("C02.N3: only %d persist/apply calls found in Apply", n)
		}
	}
	if snap == nil || snap.Body() == nil {
		return
	}
	info := snap.Info()
	g := c.Graph(snap)
	arm := c.P.Func("main.(*FSM).applyRobustMessage")
	// ---------- N1c: what was folded is removed from the log copy before the next entry is looked at (otherwise the next
	// snapshot folds it a second time on top of a state that already contains it)
	{
		var loop *ast.ForStmt
		foldV := -1
		for _, v := range g.Nodes() {
			for _, call := range astx.Calls(v.Node, false) {
				if arm != nil && astx.Callee(info, call) == arm.Obj {
					foldV = v.ID
					ast.Inspect(snap.Body(), func(n ast.Node) bool {
						if fs, ok := n.(*ast.ForStmt); ok && fs.Body.Pos() <= call.Pos() && call.End() <= fs.Body.End() {
							loop = fs
						}
						return true
					})
				}
			}
		}
		if foldV >= 0 && loop != nil && loop.Cond != nil {
			head := g.VertexAt(loop.Cond.Pos(), loop.Cond.End())
			isRemove := func(x int) bool {
				if g.V[x].Node == nil {
					return false
				}
				for _, call := range astx.Calls(g.V[x].Node, false) {
					if fn := astx.Callee(info, call); fn != nil && fname(fn) == "DeleteRange" {
						return true
					}
				}
				return false
			}
			canary := func(e *cfgx.Edge) bool {
				if e.Cond == nil {
					return false
				}
				for _, f := range cfgx.ExpandCond(e.Cond, e.Val) {
					if se, ok := ast.Unparen(f.Expr).(*ast.SelectorExpr); ok && f.Tag == nil && f.Val && se.Sel.Name == "skipDeletionForCanary" {
						return true
					}
				}
				return false
			}
			reach := g.Reach(foldV, isRemove, canary)
			bad := head >= 0 && reach[head] || reach[g.Exit]
			// leaving through a return that reports an error is fine
			if reach[g.Exit] && !(head >= 0 && reach[head]) {
				bad = false
				for _, rv := range g.Returns() {
					if !reach[rv.ID] {
						continue
					}
					rs := rv.Node.(*ast.ReturnStmt)
					if len(rs.Results) == 2 && isNilIdent(info, rs.Results[1]) {
						bad = true
					}
				}
				// falling out of the loop towards the final (successful) return
				for x := range g.V {
					if reach[x] && g.V[x].Node != nil && g.V[x].Node.Pos() > loop.End() {
						bad = true
					}
				}
			}
			r.Check(!bad, "C02.N1", snap.Name(), "a folded entry is removed from the log copy before the next one is looked at", c.P.Pos(g.V[foldV].Node.Pos()), "every path from the fold to the next iteration (or a successful end) passes ircstore.DeleteRange, unless the canary flag is set",
				"an entry is folded into the snapshot state but stays in the log copy on some path: the next snapshot starts from a state that contains it and folds it again (a JOIN twice, a message id regressing)")
		} else {
			r.Break("C02.N1: fold call / compaction loop not found in Snapshot")
		}
	}
	// ---------- N2c: the base state is the newest recorded state older than the first entry; it is loaded exactly when one was
	// found; it is the one state that is kept
	{
		lss := c.P.Field("main", "FSM", "lastSnapshotState")
		isLSS := func(e ast.Expr) bool {
			se, ok := ast.Unparen(e).(*ast.SelectorExpr)
			return ok && lss != nil && astx.FieldSel(info, se) == lss
		}
		// the load: <server>.Unmarshal(fsm.lastSnapshotState[K])
		var loadV = -1
		var keyExpr ast.Expr
		for _, v := range g.Nodes() {
			for _, call := range astx.Calls(v.Node, false) {
				if fn := astx.Callee(info, call); fn != nil && fname(fn) == "Unmarshal" && len(call.Args) == 1 {
					if ie, ok := ast.Unparen(call.Args[0]).(*ast.IndexExpr); ok && isLSS(ie.X) {
						loadV, keyExpr = v.ID, ie.Index
					}
				}
			}
		}
		if loadV < 0 {
			r.Break("C02.N2: the load of the base state (Unmarshal(fsm.lastSnapshotState[…])) was not found in Snapshot")
		} else {
			kid, _ := ast.Unparen(keyExpr).(*ast.Ident)
			var keyObj types.Object
			if kid != nil {
				keyObj = astx.Obj(info, kid)
			}
			// the flag that says a base state was found: a bool local assigned `true` together with the key — in Snapshot
			// itself, or in a helper of package main whose two results define (key, found) here
			type selSite struct {
				fi       *load.FuncInfo
				v        int
				key, fnd types.Object
			}
			findSel := func(fi *load.FuncInfo, keyIs func(types.Object) bool) *selSite {
				fg := c.Graph(fi)
				fin := fi.Info()
				var out *selSite
				for _, v := range fg.Nodes() {
					as, ok := v.Node.(*ast.AssignStmt)
					if !ok || len(as.Lhs) != len(as.Rhs) || len(as.Lhs) < 2 {
						continue
					}
					var k, f types.Object
					for i, l := range as.Lhs {
						id, ok := l.(*ast.Ident)
						if !ok {
							continue
						}
						if rid, ok := ast.Unparen(as.Rhs[i]).(*ast.Ident); ok && rid.Name == "true" {
							f = astx.Obj(fin, id)
						} else if keyIs(astx.Obj(fin, id)) {
							k = astx.Obj(fin, id)
						}
					}
					if k != nil && f != nil {
						out = &selSite{fi, v.ID, k, f}
					}
				}
				return out
			}
			var foundObj types.Object
			var sel *selSite
			if keyObj != nil {
				if s0 := findSel(snap, func(o types.Object) bool { return o == keyObj }); s0 != nil {
					sel, foundObj = s0, s0.fnd
				} else if d := uniqueDef(info, snap.Node(), kid); d != nil {
					// oldKey, found := fsm.helper(first)
					if call, ok := ast.Unparen(d).(*ast.CallExpr); ok {
						if fn := astx.Callee(info, call); fn != nil {
							if h := c.P.FuncOf(fn); h != nil && h.Body() != nil && load.ShortPkg(h.Pkg.PkgPath) == "main" {
								if s1 := findSel(h, func(o types.Object) bool {
									_, isVar := o.(*types.Var)
									return isVar && o != nil && types.Identical(o.Type(), keyObj.Type())
								}); s1 != nil {
									// the helper returns (key, found) in this order and Snapshot binds them in this order
									okRet := false
									for _, rv := range c.Graph(h).Returns() {
										rs := rv.Node.(*ast.ReturnStmt)
										if len(rs.Results) == 2 {
											a, okA := ast.Unparen(rs.Results[0]).(*ast.Ident)
											b2, okB := ast.Unparen(rs.Results[1]).(*ast.Ident)
											if okA && okB && astx.Obj(h.Info(), a) == s1.key && astx.Obj(h.Info(), b2) == s1.fnd {
												okRet = true
											}
										}
									}
									if okRet {
										sel = s1
										// the second variable defined by the same statement
										ast.Inspect(snap.Body(), func(n ast.Node) bool {
											if as, ok := n.(*ast.AssignStmt); ok && len(as.Lhs) == 2 && len(as.Rhs) == 1 && ast.Unparen(as.Rhs[0]) == ast.Expr(call) {
												if id, ok := as.Lhs[1].(*ast.Ident); ok {
													foundObj = astx.Obj(info, id)
												}
											}
											return true
										})
									}
								}
							}
						}
					}
				}
			}
			okLoad := false
			if foundObj != nil {
				for _, f := range g.FactsAt(loadV) {
					if id, ok := ast.Unparen(f.Expr).(*ast.Ident); ok && f.Tag == nil && f.Val && astx.Obj(info, id) == foundObj {
						okLoad = true
					}
				}
			}
			r.Check(okLoad, "C02.N2", snap.Name(), "the base state is loaded exactly when one was found", c.P.Pos(g.V[loadV].Node.Pos()), "dominated by found == true",
				"the recorded base state is loaded on the branch that did not find one (or skipped where one was found): the snapshot is folded from an empty server and every session created before the previous snapshot is lost")
			// the selection: key < first && (!found || key > oldKey)
			okSel := false
			if sel != nil {
				sinfo := sel.fi.Info()
				var sawLess, sawNewer bool
				for _, cl := range c.clausesAt(sel.fi, c.Graph(sel.fi), sel.v) {
					// a unit clause key < first
					if len(cl) == 1 && cl[0].Pos {
						if be, ok := ast.Unparen(cl[0].E).(*ast.BinaryExpr); ok && (be.Op == token.LSS || be.Op == token.GTR) {
							sawLess = true
						}
					}
					// a clause {!found, key > oldKey}
					if len(cl) == 2 {
						nf, newer := false, false
						for _, l := range cl {
							if id, ok := ast.Unparen(l.E).(*ast.Ident); ok && !l.Pos && astx.Obj(sinfo, id) == sel.fnd {
								nf = true
							}
							if be, ok := ast.Unparen(l.E).(*ast.BinaryExpr); ok && l.Pos && (be.Op == token.GTR || be.Op == token.LSS) {
								x, y := be.X, be.Y
								if be.Op == token.LSS {
									x, y = y, x
								}
								if yid, ok := ast.Unparen(y).(*ast.Ident); ok && astx.Obj(sinfo, yid) == sel.key {
									if _, ok := ast.Unparen(x).(*ast.Ident); ok {
										newer = true
									}
								}
							}
						}
						if nf && newer {
							sawNewer = true
						}
					}
				}
				okSel = sawLess && sawNewer
			}
			r.Check(okSel, "C02.N2", snap.Name(), "the base state chosen is the newest one older than the first entry", c.P.Pos(snap.Node().Pos()), "candidate taken under key < first && (!found || key > chosen)",
				"the loop that chooses the base state does not keep the newest recorded state below the first entry (first candidate never accepted, or an older one overwrites a newer one): entries between the chosen state and the first retained entry are missing from the snapshot")
			// the sweep of the other recorded states spares the chosen one
			nDel := 0
			for _, v := range g.Nodes() {
				for _, call := range astx.Calls(v.Node, false) {
					if astx.Builtin(info, call) != "delete" || len(call.Args) != 2 || !isLSS(call.Args[0]) {
						continue
					}
					did, ok := ast.Unparen(call.Args[1]).(*ast.Ident)
					if !ok {
						continue
					}
					nDel++
					dobj := astx.Obj(info, did)
					isD := func(e ast.Expr) bool {
						id, ok := ast.Unparen(e).(*ast.Ident)
						return ok && astx.Obj(info, id) == dobj
					}
					isK := func(e ast.Expr) bool {
						id, ok := ast.Unparen(e).(*ast.Ident)
						return ok && astx.Obj(info, id) == keyObj
					}
					r.Check(factEq(g, v.ID, false, isD, isK), "C02.N2", snap.Name(), "the chosen base state is not deleted with the others", c.P.Pos(call.Pos()), "delete dominated by key != chosen key",
						"the recorded state the snapshot in progress is based on is deleted (and the others kept): if this snapshot fails and is repeated, or for the next one, no base state exists and the fold starts from an empty server")
				}
			}
			_ = nDel
		}
	}
	// ---------- N6b: the built-in expiration is used only when none is configured
	for _, v := range g.Nodes() {
		as, ok := v.Node.(*ast.AssignStmt)
		if !ok || as.Tok != token.ASSIGN || len(as.Lhs) != 1 || len(as.Rhs) != 1 {
			continue
		}
		id, ok := as.Lhs[0].(*ast.Ident)
		if !ok {
			continue
		}
		tv, okc := info.Types[as.Rhs[0]]
		if !okc || tv.Value == nil || !astx.IsNamed(info.TypeOf(as.Lhs[0]), "time", "Duration") {
			continue
		}
		obj := astx.Obj(info, id)
		isV := func(e ast.Expr) bool {
			x, ok := ast.Unparen(e).(*ast.Ident)
			return ok && astx.Obj(info, x) == obj
		}
		isZero := func(e ast.Expr) bool { z, ok := astx.ConstInt(info, e); return ok && z == 0 }
		r.Check(factEq(g, v.ID, true, isV, isZero), "C02.N6", snap.Name(), "the built-in expiration replaces only an unset one", c.P.Pos(as.Pos()), "constant assigned under "+id.Name+" == 0",
			"the compaction horizon uses the built-in expiration although one is configured (and leaves an unset one at zero): entries that sessions of the configured lifetime can still ask for are compacted away")
	}
	// ---------- N6d: the expiration the horizon is computed from cannot be zero: the FSM's cached value is only set when a
	// Config entry is applied in this process (it is zero after every restart), so either Snapshot or sessionExpiration()
	// replaces a zero by a positive constant
	{
		hasFallback := func(fi *load.FuncInfo) bool {
			if fi == nil || fi.Body() == nil {
				return false
			}
			fin := fi.Info()
			fg := c.Graph(fi)
			found := false
			for _, v := range fg.Nodes() {
				var rhs ast.Expr
				var lhsObj types.Object
				switch x := v.Node.(type) {
				case *ast.AssignStmt:
					if x.Tok == token.ASSIGN && len(x.Lhs) == 1 && len(x.Rhs) == 1 {
						rhs = x.Rhs[0]
						if id, ok := x.Lhs[0].(*ast.Ident); ok {
							lhsObj = astx.Obj(fin, id)
						}
					}
				case *ast.ReturnStmt:
					if len(x.Results) == 1 {
						rhs = x.Results[0]
					}
				}
				if rhs == nil {
					continue
				}
				tv, okc := fin.Types[rhs]
				if !okc || tv.Value == nil || !astx.IsNamed(tv.Type, "time", "Duration") {
					continue
				}
				if z, ok := astx.ConstInt(fin, rhs); ok && z <= 0 {
					continue
				}
				// under <something> == 0
				for _, f := range fg.FactsAt(v.ID) {
					be, ok := ast.Unparen(f.Expr).(*ast.BinaryExpr)
					if !ok || f.Tag != nil {
						continue
					}
					isZero := func(e ast.Expr) bool { z, ok := astx.ConstInt(fin, e); return ok && z == 0 }
					if ((be.Op == token.EQL && f.Val) || (be.Op == token.NEQ && !f.Val) || (be.Op == token.LEQ && f.Val)) && (isZero(be.Y) || isZero(be.X)) {
						if lhsObj == nil || astx.Mentions(fin, be, lhsObj) {
							found = true
						}
					}
				}
			}
			return found
		}
		// (Until fix c2f8d52 the fall-back was load-bearing — the cached expiration was zero after every restart — and its
		// existence was an obligation. Now the cache is refreshed from the configuration in force before it is used (N6e, N6f):
		// an expiration of zero is then what the network configured, and "expiration + 10s" is the horizon the property asks
		// for. The fall-back is only observed; that it must not override a configured value is still checked above.)
		ok := hasFallback(snap) || hasFallback(c.P.Func("main.(*FSM).sessionExpiration"))
		if ok {
			r.Ok("C02.N6", snap.Name(), "an unset session expiration is replaced by a built-in one", c.P.Pos(snap.Node().Pos()), "a positive constant duration under <expiration> == 0, in Snapshot or in sessionExpiration()")
		} else {
			r.Observe("C02.N6", snap.Name(), "fall-back for an unset session expiration", c.P.Pos(snap.Node().Pos()), "none: the horizon is the configured expiration + the sweep interval also when the configuration says zero")
		}
	}
	// ---------- N6e: the expiration the horizon is computed from is the one in force after a restore too. The cache
	// (FSM.sessionExpirationDur) is filled when a Config entry is applied; a node that loaded its state from a snapshot has the
	// configuration but usually not the entry (it was compacted). Wherever package main loads the live server's state
	// (ircServer.Unmarshal in the decoders), the cache is written before the function goes on (directly, or by a function of
	// the package that writes it), on the success path of the load.
	if dur := c.P.Field("main", "FSM", "sessionExpirationDur"); dur != nil {
		writesDur := map[*load.FuncInfo]bool{}
		for _, w := range c.writersOf(dur) {
			writesDur[w] = true
		}
		nLoad := 0
		for _, fi := range c.P.FuncsIn("main") {
			if fi.Body() == nil {
				continue
			}
			info := fi.Info()
			g := c.Graph(fi)
			for _, call := range callsIn(fi, func(fn *types.Func, _ *ast.CallExpr) bool { return isFunc(fn, "ircserver", "(*IRCServer).Unmarshal") }) {
				// of the live server only (Snapshot unmarshals into its temporary server)
				se, ok := ast.Unparen(call.Fun).(*ast.SelectorExpr)
				if !ok {
					continue
				}
				rid, ok := ast.Unparen(se.X).(*ast.Ident)
				if !ok {
					continue
				}
				if v, isVar := astx.Obj(info, rid).(*types.Var); !isVar || v.Parent() != v.Pkg().Scope() {
					continue
				}
				nLoad++
				v := g.VertexOf(call)
				updates := func(x *cfgx.Vertex) bool {
					if x.Node == nil || x.ID == v {
						return false
					}
					if as, isAs := x.Node.(*ast.AssignStmt); isAs {
						for _, l := range as.Lhs {
							if fv, _ := lhsField(info, l); fv == dur {
								return true
							}
						}
					}
					for _, c2 := range astx.Calls(x.Node, false) {
						if fn := astx.Callee(info, c2); fn != nil {
							if h := c.P.FuncOf(fn); h != nil && writesDur[h] {
								return true
							}
						}
					}
					return false
				}
				// on the nil-error path from the load: the update comes before the next iteration / the end of the function
				okUpd := false
				reach := g.Reach(v, func(x int) bool { return updates(g.V[x]) }, func(e *cfgx.Edge) bool {
					// leave the error exits aside
					for _, f := range e.Facts() {
						if _, isNil, isCmp := nilCompare(info, f); isCmp && !isNil {
							return true
						}
					}
					return false
				})
				okUpd = !reach[g.Exit]
				if okUpd {
					// … and there is an update at all
					okUpd = false
					for _, x := range g.Nodes() {
						if updates(x) {
							okUpd = true
						}
					}
				}
				r.Check(okUpd, "C02.N6", fi.Name(), "the horizon's session expiration is restored with the state", c.P.Pos(call.Pos()), "FSM.sessionExpirationDur is written after ircServer.Unmarshal on the success path",
					"the live server's state is replaced from a snapshot and the FSM's cached session expiration is left as it was (zero in a fresh process): the next Snapshot computes the horizon from the built-in 10 minutes instead of the configured expiration — this node compacts entries and output that sessions can still resume from, and the nodes that did not restore keep them")
			}
		}
		if nLoad == 0 {
			r.Break("C02.N6: no load of the live server's state found in package main")
		}
	}
	// ---------- N6f: Snapshot's horizon follows the configuration in force: the Config arm of applyRobustMessage writes the
	// cache for whatever server it is given — also for the temporary server a snapshot folds a superseded Config entry into.
	// Either that write is confined to the live server (a test `i == ircServer` around it), or Snapshot re-establishes the
	// cache from the live configuration before it reads it (a function that writes the cache dominates the read).
	if dur := c.P.Field("main", "FSM", "sessionExpirationDur"); dur != nil {
		writesDur := map[*load.FuncInfo]bool{}
		for _, w := range c.writersOf(dur) {
			if w != arm {
				writesDur[w] = true
			}
		}
		sg := c.Graph(snap)
		si := snap.Info()
		okFresh := false
		for _, call := range callsIn(snap, func(fn *types.Func, _ *ast.CallExpr) bool { return isFunc(fn, "main", "(*FSM).sessionExpiration") }) {
			v := sg.VertexOf(call)
			if sg.DominatedBy(v, func(x *cfgx.Vertex) bool {
				if x.Node == nil || x.ID == v {
					return false
				}
				// (the refreshing helper may have been expanded here: then the assignment itself stands in Snapshot)
				if as, isAs := x.Node.(*ast.AssignStmt); isAs {
					for _, l := range as.Lhs {
						if fv, _ := lhsField(si, l); fv == dur {
							return true
						}
					}
				}
				for _, c2 := range astx.Calls(x.Node, false) {
					if fn := astx.Callee(si, c2); fn != nil {
						if h := c.P.FuncOf(fn); h != nil && writesDur[h] {
							return true
						}
					}
				}
				return false
			}) {
				okFresh = true
			}
		}
		// … or the Config arm writes the cache only for the live server
		if !okFresh {
			ai := arm.Info()
			ag := c.Graph(arm)
			confined, nW := true, 0
			for _, v := range ag.Nodes() {
				as, ok := v.Node.(*ast.AssignStmt)
				if !ok {
					continue
				}
				for _, l := range as.Lhs {
					if fv, _ := lhsField(ai, l); fv == dur {
						nW++
						live := false
						for _, f := range ag.FactsAt(v.ID) {
							if be, isBE := ast.Unparen(f.Expr).(*ast.BinaryExpr); isBE && f.Tag == nil && ((be.Op == token.EQL && f.Val) || (be.Op == token.NEQ && !f.Val)) {
								for _, side := range []ast.Expr{be.X, be.Y} {
									if id, isID := ast.Unparen(side).(*ast.Ident); isID {
										if gv, isVar := ai.Uses[id].(*types.Var); isVar && gv.Parent() == gv.Pkg().Scope() && gv.Name() == "ircServer" {
											live = true
										}
									}
								}
							}
						}
						if !live {
							confined = false
						}
					}
				}
			}
			okFresh = confined && nW > 0
		}
		r.Check(okFresh, "C02.N6", snap.Name(), "the horizon is computed from the configuration in force", c.P.Pos(snap.Node().Pos()), "the cached expiration is refreshed from the live configuration before Snapshot reads it (or only written for the live server)",
			"Snapshot reads the cached session expiration that the Config arm of applyRobustMessage also writes while a superseded Config entry is folded into the temporary server: after such a fold the next snapshots compute the horizon from the old, shorter expiration and compact entries and output that sessions can still resume from")
	}
	// ---------- N6c: the time an entry is judged by: its own UnixNano, the id only for entries from before UnixNano existed
	if ts := c.MustFunc("robust.(*Message).Timestamp"); ts != nil && ts.Body() != nil {
		ti := ts.Info()
		tg := c.Graph(ts)
		unF := c.P.Field("robust", "Message", "UnixNano")
		isUN := func(e ast.Expr) bool {
			se, ok := ast.Unparen(e).(*ast.SelectorExpr)
			return ok && unF != nil && astx.FieldSel(ti, se) == unF
		}
		isZero := func(e ast.Expr) bool { z, ok := astx.ConstInt(ti, e); return ok && z == 0 }
		nRet := 0
		for _, rv := range tg.Returns() {
			rs := rv.Node.(*ast.ReturnStmt)
			if len(rs.Results) != 1 {
				continue
			}
			nRet++
			usesUN := mentionsField(ti, rs.Results[0], unF)
			if usesUN {
				r.Check(!factEq(tg, rv.ID, true, isUN, isZero), "C02.N6", ts.Name(), "the recorded time is used whenever there is one", c.P.Pos(rs.Pos()), "return of UnixNano not under UnixNano == 0",
					"Timestamp() returns the recorded time only for entries that have none (test inverted): every entry with a recorded time is dated by its id, i.e. in 1970, so the compaction horizon passes everything and sessions are created with wrong times")
			} else {
				r.Check(factEq(tg, rv.ID, true, isUN, isZero), "C02.N6", ts.Name(), "the id stands in for the time only when none was recorded", c.P.Pos(rs.Pos()), "fallback under UnixNano == 0",
					"Timestamp() dates an entry by its id although it carries a recorded time: the compaction horizon is compared with a time in 1970 and every entry is compacted at once")
			}
		}
		if nRet < 1 {
			r.Break("C02.N6: no return in robust.(*Message).Timestamp")
		}
	}
	// ---------- N4c: what Restore publishes reaches the handlers: api.ReplaceState stores each of its three parameters in the
	// field the accessors read
	if rs2 := c.P.Func("api.(*HTTP).ReplaceState"); rs2 != nil && rs2.Body() != nil {
		ri := rs2.Info()
		var params []types.Object
		for _, fld := range rs2.FuncType().Params.List {
			for _, nm := range fld.Names {
				params = append(params, ri.Defs[nm])
			}
		}
		stored := map[types.Object]bool{}
		ast.Inspect(rs2.Body(), func(n ast.Node) bool {
			if as, ok := n.(*ast.AssignStmt); ok && len(as.Lhs) == len(as.Rhs) {
				for k, l := range as.Lhs {
					if se, ok := ast.Unparen(l).(*ast.SelectorExpr); ok && astx.FieldSel(ri, se) != nil {
						if id, ok := ast.Unparen(as.Rhs[k]).(*ast.Ident); ok {
							stored[astx.Obj(ri, id)] = true
						}
					}
				}
			}
			return true
		})
		for _, p := range params {
			if p == nil {
				continue
			}
			tn := "value"
			if nt := astx.NamedOf(p.Type()); nt != nil {
				tn = nt.Obj().Name()
			}
			r.Check(stored[p], "C02.N4", rs2.Name(), "the replaced "+tn+" is published to the handlers", c.P.Pos(rs2.Node().Pos()), "h.<field> = <parameter>",
				"ReplaceState drops one of the objects Restore created: the HTTP handlers keep reading the closed store / the old server / the old output stream after a snapshot was installed")
		}
	}
	// ---------- N5e: Restore hands the stream to the decoder its first byte selects; the record loop ends at, and only at, EOF
	if rs := c.MustFunc("main.(*FSM).Restore"); rs != nil && rs.Body() != nil {
		ri := rs.Info()
		rg := c.Graph(rs)
		isFirst := func(e ast.Expr) bool {
			ie, ok := ast.Unparen(e).(*ast.IndexExpr)
			if !ok {
				return false
			}
			z, okz := astx.ConstInt(ri, ie.Index)
			return okz && z == 0
		}
		isP := func(e ast.Expr) bool { z, ok := astx.ConstInt(ri, stripConv(ri, e)); return ok && z == 'p' }
		for _, v := range rg.Nodes() {
			for _, call := range astx.Calls(v.Node, false) {
				fn := astx.Callee(ri, call)
				if fn == nil {
					continue
				}
				switch fname(fn) {
				case "decodeProtobuf":
					r.Check(factEq(rg, v.ID, true, isFirst, isP), "C02.N5", rs.Name(), "the protobuf decoder gets the streams that start with the marker", c.P.Pos(call.Pos()), "dominated by first[0] == 'p'",
						"Restore hands a stream to the protobuf decoder without its first byte being the marker Persist writes (dispatch inverted): every restore fails or decodes garbage")
				case "decodeJson":
					r.Check(factEq(rg, v.ID, false, isFirst, isP), "C02.N5", rs.Name(), "the JSON decoder gets the streams that do not start with the marker", c.P.Pos(call.Pos()), "dominated by first[0] != 'p'",
						"Restore hands a protobuf stream to the JSON decoder")
				}
			}
		}
	}
	// the legacy JSON decoder treats the state record and the ordinary records like the protobuf decoder does
	if dj := c.MustFunc("main.(*FSM).decodeJson"); dj != nil && dj.Body() != nil {
		ji := dj.Info()
		jg := c.Graph(dj)
		typeField := c.P.Field("robust", "Message", "Type")
		lssF := c.P.Field("main", "FSM", "lastSnapshotState")
		inState := func(v int) (bool, bool) {
			for _, f := range jg.FactsAt(v) {
				if f.Tag == nil && isTypeEq(ji, f.Expr, typeField, "State") {
					return true, f.Val
				}
			}
			return false, false
		}
		nU, nA, nF := 0, 0, 0
		for _, v := range jg.Nodes() {
			for _, call := range astx.Calls(v.Node, false) {
				fn := astx.Callee(ji, call)
				if fn == nil {
					continue
				}
				// the state record may be handled by a helper of package main called under msg.Type == robust.State
				if h := c.P.FuncOf(fn); h != nil && h != dj && h.Body() != nil && load.ShortPkg(h.Pkg.PkgPath) == "main" {
					hasU, hasF := false, false
					for _, c2 := range astx.Calls(h.Body(), false) {
						if f2 := astx.Callee(h.Info(), c2); f2 != nil && isFunc(f2, "ircserver", "(*IRCServer).Unmarshal") {
							hasU = true
						}
					}
					ast.Inspect(h.Body(), func(n ast.Node) bool {
						if as, ok := n.(*ast.AssignStmt); ok && len(as.Lhs) == 1 {
							if ie, ok := ast.Unparen(as.Lhs[0]).(*ast.IndexExpr); ok {
								if se, ok := ast.Unparen(ie.X).(*ast.SelectorExpr); ok && lssF != nil && astx.FieldSel(h.Info(), se) == lssF {
									hasF = true
								}
							}
						}
						return true
					})
					if hasU {
						nU++
						if hasF {
							nF++
						}
						known, val := inState(v.ID)
						r.Check(known && val, "C02.N4", dj.Name(), "state record loaded into the live server", c.P.Pos(call.Pos()), "helper that calls Unmarshal is called under msg.Type == robust.State", "the JSON decoder loads a record as server state that is not the state record (or skips the state record)")
					}
				}
				switch {
				case isFunc(fn, "ircserver", "(*IRCServer).Unmarshal"):
					nU++
					known, val := inState(v.ID)
					r.Check(known && val, "C02.N4", dj.Name(), "state record loaded into the live server", c.P.Pos(call.Pos()), "Unmarshal under msg.Type == robust.State", "the JSON decoder loads a record as server state that is not the state record (or skips the state record)")
				case isFunc(fn, "main", "(*FSM).Apply") || isFunc(fn, "main", "(*FSM).applyProto"):
					nA++
					known, val := inState(v.ID)
					r.Check(known && !val, "C02.N4", dj.Name(), "ordinary records are applied, the state record is not", c.P.Pos(call.Pos()), "Apply on the false edge of msg.Type == robust.State", "the JSON decoder applies the state record as a message / does not apply the retained entries")
				}
			}
			if as, ok := v.Node.(*ast.AssignStmt); ok && len(as.Lhs) == 1 {
				if ie, ok := ast.Unparen(as.Lhs[0]).(*ast.IndexExpr); ok {
					if se, ok := ast.Unparen(ie.X).(*ast.SelectorExpr); ok && lssF != nil && astx.FieldSel(ji, se) == lssF {
						nF++
					}
				}
			}
		}
		r.Check(nU > 0 && nA > 0 && nF > 0, "C02.N4", dj.Name(), "state record loaded and filed, ordinary records applied", c.P.Pos(dj.Node().Pos()), "Unmarshal, lastSnapshotState[…] = state and Apply all present",
			"the JSON decoder no longer loads the state record, remembers it for the next snapshot, or applies the retained entries")
	}
	for _, name := range []string{"main.(*FSM).decodeProtobuf", "main.(*FSM).decodeJson"} {
		fi := c.MustFunc(name)
		if fi == nil || fi.Body() == nil {
			continue
		}
		di := fi.Info()
		dg := c.Graph(fi)
		isEOF := func(e ast.Expr) bool { return refersTo(di, e, "io", "EOF") }
		isErr := func(e ast.Expr) bool {
			id, ok := ast.Unparen(e).(*ast.Ident)
			return ok && types.Identical(di.TypeOf(id), types.Universe.Lookup("error").Type())
		}
		nEOF := 0
		for _, v := range dg.V {
			for _, e := range v.Succ {
				if e.Cond == nil {
					continue
				}
				for _, f := range cfgx.ExpandCond(e.Cond, e.Val) {
					be, ok := ast.Unparen(f.Expr).(*ast.BinaryExpr)
					if !ok || f.Tag != nil || (be.Op != token.EQL && be.Op != token.NEQ) {
						continue
					}
					if !((isErr(be.X) && isEOF(be.Y)) || (isErr(be.Y) && isEOF(be.X))) {
						continue
					}
					eq := (be.Op == token.EQL) == f.Val
					nEOF++
					// on the EOF edge: no return of a non-nil error before leaving the loop; on the other edge: an error return
					var errRet, okEnd bool
					reach := dg.Reach(e.To, nil, nil)
					for _, rv := range dg.Returns() {
						rs2 := rv.Node.(*ast.ReturnStmt)
						if len(rs2.Results) != 1 {
							continue
						}
						direct := rv.ID == e.To || dg.Reach(e.To, func(x int) bool { _, isRet := dg.V[x].Node.(*ast.ReturnStmt); return isRet && x != rv.ID }, nil)[rv.ID]
						if !direct {
							continue
						}
						if isNilIdent(di, rs2.Results[0]) {
							okEnd = true
						} else if e.To == rv.ID {
							errRet = true
						}
					}
					_ = reach
					if eq {
						r.Check(!errRet, "C02.N5", fi.Name(), "end of stream ends the record loop without an error", c.P.Pos(e.Cond.Pos()), "the io.EOF edge does not return the error",
							"the decoder returns io.EOF as a failure (and treats real read errors as the end of the stream): every restore of a complete snapshot fails, a truncated one is accepted")
					} else {
						// … or the test for the end of the stream comes first and the test for an error after it: from this edge,
						// on the paths on which the error may be set, the function ends with it
						if !errRet && okEnd {
							var eo types.Object
							for _, side := range []ast.Expr{be.X, be.Y} {
								if isErr(side) {
									eo = astx.Obj(di, ast.Unparen(side).(*ast.Ident))
								}
							}
							if eo != nil {
								if strong, _ := c.errDecisiveFrom(di, dg, e.To, eo, true); strong {
									errRet = true
								}
							}
						}
						r.Check(errRet || !okEnd, "C02.N5", fi.Name(), "a read error other than end of stream fails the restore", c.P.Pos(e.Cond.Pos()), "the non-EOF edge returns the error",
							"a read error that is not the end of the stream ends the record loop as if the snapshot were complete: the node comes up with a truncated state")
					}
				}
			}
		}
		if nEOF == 0 {
			r.Break("C02.N5: no io.EOF test found in %s", name)
		}
		// every record of the stream that is not the state record is applied: no iteration of the record loop comes back to
		// its start without having passed the apply call or the branch of the state record; and what the apply call returns is
		// none of Restore's business (a replayed entry that was refused when it was first applied is refused again)
		var loop *ast.ForStmt
		ast.Inspect(fi.Body(), func(n ast.Node) bool {
			if fs, ok := n.(*ast.ForStmt); ok && loop == nil && fs.Cond == nil {
				loop = fs
			}
			return loop == nil
		})
		if loop == nil || len(loop.Body.List) == 0 {
			r.Break("C02.N5: the record loop of %s was not recognised", name)
			continue
		}
		start := dg.VertexOf(loop.Body.List[0])
		applyV := -1
		var applyCall *ast.CallExpr
		for _, v := range dg.Nodes() {
			if v.Node.Pos() < loop.Body.Pos() || v.Node.End() > loop.Body.End() {
				continue
			}
			for _, call := range astx.Calls(v.Node, false) {
				if fn := astx.Callee(di, call); fn != nil && (fname(fn) == "applyProto" || fname(fn) == "Apply") && c.P.FuncOf(fn) != nil {
					applyV, applyCall = v.ID, call
				}
			}
		}
		if applyV < 0 || start < 0 {
			r.Break("C02.N5: no apply call in the record loop of %s", name)
			continue
		}
		isStateEdge := func(e *cfgx.Edge) bool {
			for _, f := range e.Facts() {
				if !f.Val {
					continue
				}
				var be *ast.BinaryExpr
				if f.Tag != nil {
					if refersTo(di, f.Expr, pathRobust, "State") {
						return true
					}
					continue
				}
				be, _ = ast.Unparen(f.Expr).(*ast.BinaryExpr)
				if be != nil && be.Op == token.EQL && (refersTo(di, be.X, pathRobust, "State") || refersTo(di, be.Y, pathRobust, "State")) {
					return true
				}
			}
			return false
		}
		reach := dg.Reach(start, func(x int) bool { return x == applyV }, isStateEdge)
		skips := false
		for x := range dg.V {
			if !reach[x] {
				continue
			}
			for _, e := range dg.V[x].Succ {
				if e.To == start && x != start && !isStateEdge(e) {
					skips = true
				}
			}
		}
		r.Check(!skips, "C02.N5", fi.Name(), "every record that is not the state record is applied", c.P.Pos(applyCall.Pos()), "no iteration returns to the start of the loop without the apply call",
			"the restore loop passes some records by (a type it skips, a guard in front of the apply call): the restored node misses what those entries did — e.g. the duplicate marker that a skipped message of death still advances")
		_, isStmt := dg.V[applyV].Node.(*ast.ExprStmt)
		r.Check(isStmt, "C02.N5", fi.Name(), "the result of replaying a record does not end the restore", c.P.Pos(applyCall.Pos()), "the apply call is a statement of its own",
			"Restore looks at what applying a replayed entry returns: an entry that was refused when it was first applied (a session limit reached) now aborts the restore, and everything after it is missing on the restored node")
	}
}
