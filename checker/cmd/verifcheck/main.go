// verifcheck decides one property of /repo by static analysis.
//
//	verifcheck -prop C06 -tier quick
//
// exit 0: every obligation discharged (or a listed known finding);
// exit 1: a VIOLATION line was printed; exit 2: the check itself is broken
// (tree does not type-check, anchor missing, vacuity floor not met).
package main

import (
	"flag"
	"fmt"
	"os"
	"path/filepath"
	"strconv"
	"strings"
	"time"

	"verif/checker/internal/load"
	"verif/checker/internal/report"
	"verif/checker/internal/rules"
)

func main() {
	prop := flag.String("prop", "", "property id (C01..C20) or 'all'")
	tier := flag.String("tier", "quick", "quick|thorough")
	repo := flag.String("repo", "/repo", "repository to analyse")
	verif := flag.String("verif", "/verif", "verification directory (evidence/, replay/, known_findings.json)")
	list := flag.Bool("list", false, "list properties with rule sets")
	flag.Parse()
	if *list {
		fmt.Println(strings.Join(rules.Properties(), " "))
		return
	}
	seed := int64(0)
	if s := os.Getenv("VERIF_SEED"); s != "" {
		if v, err := strconv.ParseInt(s, 10, 64); err == nil {
			seed = v
		}
	}
	start := time.Now()
	defer func() {
		if r := recover(); r != nil {
			fmt.Printf("CHECK-BROKEN property=%s checker panic: %v\n", *prop, r)
			panic(r)
		}
	}()
	findings, err := report.LoadFindings(filepath.Join(*verif, "known_findings.json"))
	if err != nil {
		fmt.Printf("CHECK-BROKEN property=%s known_findings.json: %v\n", *prop, err)
		os.Exit(2)
	}
	p, err := load.Load(*repo, nil)
	if err != nil {
		fmt.Printf("CHECK-BROKEN property=%s cannot load %s: %v\n", *prop, *repo, err)
		os.Exit(2)
	}
	ids := []string{*prop}
	if *prop == "all" {
		ids = rules.Properties()
	}
	exit := 0
	for _, id := range ids {
		t0 := time.Now()
		if *prop != "all" {
			t0 = start
		}
		res := rules.Run(id, p, *tier)
		if res == nil {
			fmt.Printf("CHECK-BROKEN property=%s no rule set registered\n", id)
			os.Exit(2)
		}
		extra := map[string]interface{}{
			"packages_loaded": len(p.All), "module_packages": len(p.Pkgs), "module_functions": len(p.AllFuncs),
		}
		if e := res.Finish(*verif, *tier, seed, t0, findings, extra); e > exit || (e == 1) {
			if exit != 1 {
				exit = e
			}
		}
	}
	os.Exit(exit)
}
