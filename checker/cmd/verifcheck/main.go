// verifcheck decides one property of /repo by static analysis.
//
//	verifcheck -prop C06 -tier quick
//
// exit 0: every obligation discharged (or a listed known finding);
// exit 1: a VIOLATION line was printed; exit 2: the check itself is broken
// (tree does not type-check, anchor missing, vacuity floor not met).
package main

import (
	"flag"
	"fmt"
	"os"
	"path/filepath"
	"strconv"
	"strings"
	"time"

	"verif/checker/internal/load"
	"verif/checker/internal/report"
	"verif/checker/internal/rules"
	"verif/checker/internal/sens"
)

type multi []string

func (m *multi) String() string     { return strings.Join(*m, ",") }
func (m *multi) Set(s string) error { *m = append(*m, s); return nil }

func main() {
	prop := flag.String("prop", "", "property id (C01..C20) or 'all'")
	tier := flag.String("tier", "quick", "quick|thorough")
	repo := flag.String("repo", "/repo", "repository to analyse")
	verif := flag.String("verif", "/verif", "verification directory (evidence/, replay/, known_findings.json)")
	list := flag.Bool("list", false, "list properties with rule sets")
	dry := flag.Bool("dry", false, "print a one-line verdict, write no evidence (used on source variants by the thorough tier)")
	maxMut := flag.Int("mutants", 320, "thorough tier: upper bound on statement-level variants analysed")
	var overlays multi
	flag.Var(&overlays, "overlay", "file=replacement: analyse the tree with <file> replaced by the contents of <replacement> (in memory)")
	sweep := flag.String("sweep", "", "development: statement-level variants of every function of this module package (short name), judged by all rule sets; result in replay/sweep-<pkg>-mutants.json")
	genErrTable := flag.Bool("gen-errtable", false, "development: rewrite internal/rules/errtable.json (decisive error sites per function and callee) from the current tree")
	genAnchors := flag.Bool("gen-anchors", false, "development: rewrite internal/load/anchors.json from the rules' sources and the current tree")
	flag.Parse()
	report.DryRun = *dry
	if *list {
		fmt.Println(strings.Join(rules.Properties(), " "))
		return
	}
	seed := int64(0)
	if s := os.Getenv("VERIF_SEED"); s != "" {
		if v, err := strconv.ParseInt(s, 10, 64); err == nil {
			seed = v
		}
	}
	start := time.Now()
	defer func() {
		if r := recover(); r != nil {
			fmt.Printf("CHECK-BROKEN property=%s checker panic: %v\n", *prop, r)
			panic(r)
		}
	}()
	findings, err := report.LoadFindings(filepath.Join(*verif, "known_findings.json"))
	if err != nil {
		fmt.Printf("CHECK-BROKEN property=%s known_findings.json: %v\n", *prop, err)
		os.Exit(2)
	}
	var overlay map[string][]byte
	for _, o := range overlays {
		i := strings.Index(o, "=")
		if i < 0 {
			fmt.Printf("CHECK-BROKEN property=%s bad -overlay %q\n", *prop, o)
			os.Exit(2)
		}
		b, err := os.ReadFile(o[i+1:])
		if err != nil {
			fmt.Printf("CHECK-BROKEN property=%s %v\n", *prop, err)
			os.Exit(2)
		}
		if overlay == nil {
			overlay = map[string][]byte{}
		}
		overlay[o[:i]] = b
	}
	p, err := load.Load(*repo, overlay)
	if err != nil {
		fmt.Printf("CHECK-BROKEN property=%s cannot load %s: %v\n", *prop, *repo, err)
		os.Exit(2)
	}
	report.MergeSamePos = p.ExpandedPos
	if *genErrTable {
		if err := rules.GenErrTable(p, filepath.Join(*verif, "checker/internal/rules/errtable.json")); err != nil {
			fmt.Println(err)
			os.Exit(2)
		}
		return
	}
	if *genAnchors {
		if err := p.GenerateAnchors(filepath.Join(*verif, "checker/internal/rules"), filepath.Join(*verif, "checker/internal/load/anchors.json")); err != nil {
			fmt.Println(err)
			os.Exit(2)
		}
		return
	}
	if *sweep != "" {
		self, _ := os.Executable()
		sens.Sweep(self, *repo, *verif, p, *sweep, 10)
		return
	}
	ids := []string{*prop}
	if *prop == "all" {
		ids = rules.Properties()
	}
	exit := 0
	for _, id := range ids {
		t0 := time.Now()
		if *prop != "all" {
			t0 = start
		}
		res := rules.Run(id, p, *tier)
		if res == nil {
			fmt.Printf("CHECK-BROKEN property=%s no rule set registered\n", id)
			os.Exit(2)
		}
		extra := map[string]interface{}{
			"packages_loaded": len(p.All), "module_packages": len(p.Pkgs), "module_functions": len(p.AllFuncs),
		}
		if len(p.AnchorNotes) > 0 {
			extra["renamed_anchors"] = p.AnchorNotes
		}
		if len(p.Inlined) > 0 {
			extra["expanded_helpers"] = p.Inlined
		}
		if len(p.InlineNotes) > 0 {
			extra["expansion_notes"] = p.InlineNotes
		}
		if *tier == "thorough" && !*dry {
			self, _ := os.Executable()
			sr := &sens.Result{Note: "sensitivity of the rule set on source variants of /repo's current tree (analysed, never executed); it does not influence the verdict"}
			sens.Seeds(self, id, *repo, *verif, sr)
			sens.Mutants(self, id, *repo, *verif, p, res, *maxMut, 14, sr)
			extra["sensitivity"] = sr
			fmt.Printf("%s thorough: seeded changes noticed %d/%d; statement-level variants of the obligation-carrying functions: %d generated, %d do not compile, %d noticed, %d silent\n",
				id, sr.SeedsDetected, sr.SeedsTotal, sr.Generated, sr.Invalid, sr.Noticed, sr.Silent)
			for _, sd := range sr.Seeds {
				if sd.Status == "missed" {
					fmt.Printf("%s thorough: NOTE stored seeded change %s is not noticed by the rule set on this tree\n", id, sd.Seed)
				}
			}
		}
		if e := res.Finish(*verif, *tier, seed, t0, findings, extra); e > exit || (e == 1) {
			if exit != 1 {
				exit = e
			}
		}
	}
	os.Exit(exit)
}
