// Place in the repository root (package main) as horizon_fold_demo_test.go and run
//
//	go test -vet=off -count=1 -run TestDemoHorizonAfterFold .
//
// Demonstrates the second facet of finding C02.N6: the Config arm of applyRobustMessage writes the FSM's cached session
// expiration also when Snapshot folds an old, compacted Config entry into its temporary server. The cache then holds the
// superseded value until another Config entry is applied: the next snapshot compacts with the old, shorter horizon although
// the configuration in force says 30 minutes.
package main

import (
	"flag"
	"path/filepath"
	"strconv"
	"testing"
	"time"

	"github.com/hashicorp/raft"
	"github.com/robustirc/robustirc/internal/ircserver"
	"github.com/robustirc/robustirc/internal/outputstream"
	"github.com/robustirc/robustirc/internal/raftstore"
	"github.com/robustirc/robustirc/internal/robust"
)

func TestDemoHorizonAfterFold(t *testing.T) {
	ircServer = ircserver.NewIRCServer("testnetwork", time.Now())
	var err error
	outputStream, err = outputstream.NewOutputStream("")
	if err != nil {
		t.Fatal(err)
	}
	tempdir := t.TempDir()
	flag.Set("raftdir", tempdir)
	logstore, err := raftstore.NewLevelDBStore(filepath.Join(tempdir, "raftlog"), false, false)
	if err != nil {
		t.Fatal(err)
	}
	ircstore, err := raftstore.NewLevelDBStore(filepath.Join(tempdir, "irclog"), false, false)
	if err != nil {
		t.Fatal(err)
	}
	noop := func(*ircserver.IRCServer, *raftstore.LevelDBStore, *outputstream.OutputStream) {}
	fsm := FSM{store: logstore, ircstore: ircstore, lastSnapshotState: make(map[uint64][]byte), ReplaceState: noop}

	ago := func(d time.Duration) string { return strconv.FormatInt(time.Now().Add(-d).UnixNano(), 10) }
	var logs []*raft.Log
	logs = appendLog(logs, `{"Id": {"Id": 1}, "UnixNano": `+ago(2*time.Hour)+`, "Type": 0, "Data": "auth"}`)
	logs = appendLog(logs, `{"Id": {"Id": 2}, "UnixNano": `+ago(119*time.Minute)+`, "Session": {"Id": 1}, "Type": 2, "Data": "NICK sECuRE"}`)
	logs = appendLog(logs, `{"Id": {"Id": 3}, "UnixNano": `+ago(118*time.Minute)+`, "Session": {"Id": 1}, "Type": 2, "Data": "USER blah 0 * :Michael Stapelberg"}`)
	// the old configuration, long superseded …
	logs = appendLog(logs, `{"Id": {"Id": 4}, "UnixNano": `+ago(40*time.Minute)+`, "Type": 6, "Revision": 1, "Data": "SessionExpiration = \"10m\"\n"}`)
	// … an input that is 15 minutes old …
	logs = appendLog(logs, `{"Id": {"Id": 5}, "UnixNano": `+ago(15*time.Minute)+`, "Session": {"Id": 1}, "Type": 2, "Data": "JOIN #recent"}`)
	// … and the configuration in force: sessions live for 30 minutes
	logs = appendLog(logs, `{"Id": {"Id": 6}, "UnixNano": `+ago(1*time.Minute)+`, "Type": 6, "Revision": 2, "Data": "SessionExpiration = \"30m\"\n"}`)
	if err := logstore.StoreLogs(logs); err != nil {
		t.Fatal(err)
	}
	for _, l := range logs {
		fsm.Apply(l)
	}
	fss, err := raft.NewFileSnapshotStore(tempdir, 5, nil)
	if err != nil {
		t.Fatal(err)
	}
	// First snapshot: horizon 30m10s, folds everything up to and including the old Config entry (40 minutes old).
	if err := snapshot(&fsm, fss, uint64(len(logs))); err != nil {
		t.Fatal(err)
	}
	if _, ok := outputStream.Get(robust.Id{Id: 5}); !ok {
		t.Fatalf("setup: the first snapshot compacted the 15 minute old entry")
	}
	ircServer.ConfigMu.RLock()
	inForce := time.Duration(ircServer.Config.SessionExpiration)
	ircServer.ConfigMu.RUnlock()
	if inForce != 30*time.Minute {
		t.Fatalf("setup: configuration in force has SessionExpiration %v, want 30m", inForce)
	}
	// (what the cache holds in between is an implementation detail: on the unfixed tree it is the folded entry's 10m)
	t.Logf("after a snapshot that folded the superseded Config entry, the cached expiration is %v; the configuration in force says 30m", fsm.sessionExpiration())
	// Second snapshot, nothing applied in between: the 15 minute old entry must still be retained.
	time.Sleep(2 * time.Millisecond)
	if err := snapshot(&fsm, fss, uint64(len(logs))); err != nil {
		t.Fatal(err)
	}
	if _, ok := outputStream.Get(robust.Id{Id: 5}); !ok {
		t.Errorf("the second snapshot compacted (and deleted the output of) an input that is 15 minutes old although sessions live for 30 minutes: the horizon was computed from the superseded configuration that the first snapshot had folded")
	}
}
