package ircserver

// Place in internal/ircserver/ and run: go test -vet=off -count=1 -run TestDemoCRInjection ./internal/ircserver/
// Shows what reached other clients when the HTTP API let CR (posted lines) or CR/LF (quit messages) through:
// the state machine relays the bytes verbatim. The API-side filter (sanitizeLine, fix 2a7…) now removes them
// before the entry is proposed; this test documents the state-machine behaviour the filter protects.

import (
	"strings"
	"testing"

	"github.com/robustirc/robustirc/internal/robust"
	"gopkg.in/sorcix/irc.v2"
)

func TestDemoCRInjection(t *testing.T) {
	i, ids := stdIRCServer()
	i.ProcessMessage(&robust.Message{Session: ids["secure"]}, irc.ParseMessage("JOIN #test"))
	i.ProcessMessage(&robust.Message{Session: ids["mero"]}, irc.ParseMessage("JOIN #test"))
	// what handleDeleteSession used to propose for {"Quitmessage": "bye\r\n:secure!x@y PRIVMSG #test :forged"}
	r := i.ProcessMessage(&robust.Message{Session: ids["mero"]}, irc.ParseMessage("QUIT :bye\r\n:secure!x@y PRIVMSG #test :forged"))
	for _, m := range r.Messages {
		if m.InterestingFor[ids["secure"].Id] && strings.ContainsAny(m.Data, "\r\n") {
			t.Logf("line delivered to another client contains CR/LF: %q", m.Data)
			return
		}
	}
	t.Fatalf("expected the state machine to relay the bytes verbatim")
}
