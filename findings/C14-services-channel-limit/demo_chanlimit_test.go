package ircserver

import (
	"testing"

	"github.com/robustirc/robustirc/internal/robust"
	"gopkg.in/sorcix/irc.v2"
)

func TestDemoServicesChannelLimit(t *testing.T) {
	i, ids := stdIRCServerWithServices()
	i.Config.MaxChannels = 1
	p := func(id robust.Id, line string) {
		i.ProcessMessage(&robust.Message{Session: id}, irc.ParseMessage(line))
	}
	p(ids["secure"], "JOIN #one")
	p(ids["services"], "SVSJOIN mero #two")
	p(ids["services"], "NICK ChanServ 1 1422134861 services robustirc.net services.robustirc.net 0 :Operator Server")
	p(ids["services"], ":ChanServ JOIN #three")
	if got := i.NumChannels(); got > 1 {
		t.Fatalf("MaxChannels=1 exceeded: %d channels exist", got)
	}
}
