package main

// Demonstration for property C11 (place in the repository root, package main; go test -run TestC11Pprof .).
// robustirc.go serves http.DefaultServeMux (http.Server without Handler) and blank-imports net/http/pprof, whose init
// registers /debug/pprof/* on that mux. Those patterns are more specific than "/", so they never reach DispatchPrivate:
// the endpoints answer without the network password — /debug/pprof/cmdline returns the command line, which contains
// the -network_password flag when the password is passed that way.

import (
	"net/http"
	"net/http/httptest"
	"os"
	"strings"
	"testing"
)

func TestC11PprofNeedsNetworkPassword(t *testing.T) {
	req := httptest.NewRequest("GET", "/debug/pprof/cmdline", nil) // no basic auth
	h, pattern := http.DefaultServeMux.Handler(req)
	rec := httptest.NewRecorder()
	h.ServeHTTP(rec, req)
	if rec.Code != http.StatusUnauthorized && rec.Code != http.StatusNotFound {
		t.Fatalf("GET /debug/pprof/cmdline without credentials: pattern %q answered %d (want 401), body contains argv[0]: %v",
			pattern, rec.Code, strings.Contains(rec.Body.String(), os.Args[0]))
	}
}
