// Place in the repository root (package main) as horizon_demo_test.go and run
//
//	go test -vet=off -count=1 -run TestDemoHorizonAfterRestore .
//
// Demonstrates finding C02.N6 "compaction horizon after a restore": a node that restored its state from a snapshot (restart,
// InstallSnapshot) compacts with the built-in 10 minute horizon although the replicated configuration says 30 minutes,
// because FSM.sessionExpirationDur is only set when a Config entry is applied, never from restored state.
package main

import (
	"flag"
	"path/filepath"
	"strconv"
	"testing"
	"time"

	"github.com/hashicorp/raft"
	"github.com/robustirc/robustirc/internal/ircserver"
	"github.com/robustirc/robustirc/internal/outputstream"
	"github.com/robustirc/robustirc/internal/raftstore"
	"github.com/robustirc/robustirc/internal/robust"
)

func TestDemoHorizonAfterRestore(t *testing.T) {
	ircServer = ircserver.NewIRCServer("testnetwork", time.Now())
	var err error
	outputStream, err = outputstream.NewOutputStream("")
	if err != nil {
		t.Fatal(err)
	}
	tempdir := t.TempDir()
	flag.Set("raftdir", tempdir)
	logstore, err := raftstore.NewLevelDBStore(filepath.Join(tempdir, "raftlog"), false, false)
	if err != nil {
		t.Fatal(err)
	}
	ircstore, err := raftstore.NewLevelDBStore(filepath.Join(tempdir, "irclog"), false, false)
	if err != nil {
		t.Fatal(err)
	}
	noop := func(*ircserver.IRCServer, *raftstore.LevelDBStore, *outputstream.OutputStream) {}
	fsm := FSM{store: logstore, ircstore: ircstore, lastSnapshotState: make(map[uint64][]byte), ReplaceState: noop}

	old := time.Now().Add(-2 * time.Hour).UnixNano()
	recent := time.Now().Add(-15 * time.Minute).UnixNano() // older than 10m10s, newer than 30m10s
	ts := func(n int64) string { return strconv.FormatInt(n, 10) }
	var logs []*raft.Log
	logs = appendLog(logs, `{"Id": {"Id": 1}, "UnixNano": `+ts(old)+`, "Type": 0, "Data": "auth"}`)
	logs = appendLog(logs, `{"Id": {"Id": 2}, "UnixNano": `+ts(old+1)+`, "Type": 6, "Revision": 1, "Data": "SessionExpiration = \"30m\"\n"}`)
	logs = appendLog(logs, `{"Id": {"Id": 3}, "UnixNano": `+ts(old+2)+`, "Session": {"Id": 1}, "Type": 2, "Data": "NICK sECuRE"}`)
	logs = appendLog(logs, `{"Id": {"Id": 4}, "UnixNano": `+ts(old+3)+`, "Session": {"Id": 1}, "Type": 2, "Data": "USER blah 0 * :Michael Stapelberg"}`)
	logs = appendLog(logs, `{"Id": {"Id": 5}, "UnixNano": `+ts(recent)+`, "Session": {"Id": 1}, "Type": 2, "Data": "JOIN #recent"}`)
	if err := logstore.StoreLogs(logs); err != nil {
		t.Fatal(err)
	}
	for _, l := range logs {
		fsm.Apply(l)
	}
	if got := fsm.sessionExpiration(); got != 30*time.Minute {
		t.Fatalf("setup: sessionExpiration() = %v after applying the Config entry, want 30m", got)
	}
	fss, err := raft.NewFileSnapshotStore(tempdir, 5, nil)
	if err != nil {
		t.Fatal(err)
	}
	// The node that applied the Config entry keeps entry 5 (15 minutes old, horizon 30m10s): its output is still there.
	if err := snapshot(&fsm, fss, uint64(len(logs))); err != nil {
		t.Fatal(err)
	}
	if _, ok := outputStream.Get(robust.Id{Id: 5}); !ok {
		t.Fatalf("setup: the node that applied the configuration compacted the 15 minute old entry")
	}

	// A fresh process restores from that snapshot (restart / InstallSnapshot) …
	ircServer = ircserver.NewIRCServer("testnetwork", time.Now())
	fsm2 := FSM{store: logstore, ircstore: fsm.ircstore, lastSnapshotState: make(map[uint64][]byte), ReplaceState: noop}
	if err := restore(&fsm2, fss, uint64(len(logs))); err != nil {
		t.Fatal(err)
	}
	ircServer.ConfigMu.RLock()
	restored := time.Duration(ircServer.Config.SessionExpiration)
	ircServer.ConfigMu.RUnlock()
	if restored != 30*time.Minute {
		t.Fatalf("the restored configuration has SessionExpiration %v, want 30m", restored)
	}
	// … and takes its next snapshot: the same 15 minute old entry must still be retained.
	time.Sleep(2 * time.Millisecond)
	if err := snapshot(&fsm2, fss, uint64(len(logs))); err != nil {
		t.Fatal(err)
	}
	if got := fsm2.sessionExpiration(); got != 30*time.Minute {
		t.Errorf("after Restore, sessionExpiration() = %v although the replicated configuration says 30m: the compaction horizon falls back to 10m+10s", got)
	}
	if _, ok := outputStream.Get(robust.Id{Id: 5}); !ok {
		t.Errorf("the restored node compacted (and deleted the output of) an input that is 15 minutes old although sessions live for 30 minutes: a session resuming there has lost its messages, and the node that did not restore still serves them")
	}
}
