package ircserver

import (
	"testing"

	"github.com/robustirc/robustirc/internal/robust"
	"gopkg.in/sorcix/irc.v2"
)

func TestDemoSvsnickCaseOnly(t *testing.T) {
	i, ids := stdIRCServerWithServices()
	p := func(id robust.Id, line string) {
		i.ProcessMessage(&robust.Message{Session: id}, irc.ParseMessage(line))
	}
	p(ids["mero"], "JOIN #test")
	p(ids["services"], "SVSNICK mero MERO :1")
	if _, ok := i.nicks[NickToLower("mero")]; !ok {
		t.Fatalf("session lost from the nickname index after a case-only SVSNICK")
	}
	p(ids["mero"], "MODE #test +s") // panicked before the fix
}
