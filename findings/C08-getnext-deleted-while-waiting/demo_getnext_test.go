package outputstream

// Place in internal/outputstream/ and run: go test -vet=off -count=1 -run TestDemoGetNextDeletedWhileWaiting ./internal/outputstream/
// A reader waits behind the newest batch; compaction deletes that batch; the next Add wakes the reader,
// which dereferences the nil result of its unchecked look-up (C08.S1, GetNext wait loop).

import (
	"context"
	"testing"
	"time"

	"github.com/robustirc/robustirc/internal/robust"
)

func TestDemoGetNextDeletedWhileWaiting(t *testing.T) {
	os, err := NewOutputStream("")
	if err != nil {
		t.Fatal(err)
	}
	os.Add([]Message{{Id: robust.Id{Id: 1, Reply: 1}, Data: "a", InterestingFor: map[uint64]bool{}}})
	done := make(chan []Message)
	go func() { done <- os.GetNext(context.Background(), robust.Id{Id: 1}) }()
	time.Sleep(200 * time.Millisecond) // the reader now blocks behind batch 1
	if err := os.Delete(robust.Id{Id: 1}); err != nil {
		t.Fatal(err)
	}
	os.Add([]Message{{Id: robust.Id{Id: 2, Reply: 1}, Data: "b", InterestingFor: map[uint64]bool{}}})
	select {
	case msgs := <-done:
		if len(msgs) == 0 || msgs[0].Id.Id != 2 {
			t.Fatalf("got %v, want the batch with id 2", msgs)
		}
	case <-time.After(3 * time.Second):
		t.Fatalf("GetNext stays blocked although a successor exists")
	}
}
