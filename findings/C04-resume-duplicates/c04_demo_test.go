package api

// Demonstration for property C04 (place in internal/api; go test -run TestC04 ./internal/api/).
// A client that has received 20.1 and 20.2 resumes with lastseen=20.2 on a node that has not applied entry 20 yet.
// The node applies entry 20 a moment later. The client must receive only 20.3.

import (
	"context"
	"fmt"
	"testing"
	"time"

	"github.com/robustirc/robustirc/internal/outputstream"
	"github.com/robustirc/robustirc/internal/robust"
)

func c04add(t *testing.T, out *outputstream.OutputStream, id uint64, n int) {
	msgs := make([]outputstream.Message, n)
	for k := range msgs {
		msgs[k] = outputstream.Message{
			Id:             robust.Id{Id: id, Reply: uint64(k + 1)},
			Data:           fmt.Sprintf("m%d.%d", id, k+1),
			InterestingFor: map[uint64]bool{1: true},
		}
	}
	if err := out.Add(msgs); err != nil {
		t.Fatal(err)
	}
}

func TestC04ResumeInsideBatchOnLaggingNode(t *testing.T) {
	out, err := outputstream.NewOutputStream(t.TempDir())
	if err != nil {
		t.Fatal(err)
	}
	c04add(t, out, 19, 1)
	api := &HTTP{outputUnlocked: out}
	ctx, cancel := context.WithCancel(context.Background())
	defer cancel()
	ch := make(chan []*robust.Message)
	go api.getMessages(ctx, robust.Id{Id: 20, Reply: 2}, ch)
	time.Sleep(200 * time.Millisecond)
	c04add(t, out, 20, 3)
	select {
	case got := <-ch:
		var ids []string
		for _, m := range got {
			ids = append(ids, fmt.Sprintf("%d.%d", m.Id.Id, m.Id.Reply))
		}
		if len(ids) != 1 || ids[0] != "20.3" {
			t.Fatalf("client that had seen 20.2 received %v, want [20.3]", ids)
		}
	case <-time.After(3 * time.Second):
		t.Fatal("nothing delivered")
	}
	cancel()
	out.InterruptGetNext()
}
