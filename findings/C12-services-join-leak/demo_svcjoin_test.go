package ircserver

import (
	"strings"
	"testing"

	"github.com/robustirc/robustirc/internal/robust"
	"gopkg.in/sorcix/irc.v2"
)

// A services pseudo-client that shares #a with mero joins #secret: mero (not on #secret) must not be told.
func TestDemoServicesJoinLeak(t *testing.T) {
	i, ids := stdIRCServerWithServices()
	p := func(id robust.Id, line string) *Replyctx {
		return i.ProcessMessage(&robust.Message{Session: id}, irc.ParseMessage(line))
	}
	p(ids["services"], "NICK ChanServ 1 1422134861 services robustirc.net services.robustirc.net 0 :Operator Server")
	p(ids["mero"], "JOIN #a")
	p(ids["services"], ":ChanServ JOIN #a")
	r := p(ids["services"], ":ChanServ JOIN #secret")
	for _, m := range r.Messages {
		if strings.Contains(m.Data, "JOIN #secret") && m.InterestingFor[ids["mero"].Id] {
			t.Fatalf("JOIN of #secret delivered to a session that is not on #secret: %q", m.Data)
		}
	}
	r = p(ids["services"], ":ChanServ PART #secret")
	for _, m := range r.Messages {
		if strings.Contains(m.Data, "PART #secret") && m.InterestingFor[ids["mero"].Id] {
			t.Fatalf("PART of #secret delivered to a session that is not on #secret: %q", m.Data)
		}
	}
}
