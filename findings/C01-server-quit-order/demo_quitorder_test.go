package ircserver

// Place in internal/ircserver/ and run: go test -vet=off -count=1 -run TestDemoServerQuitOrder ./internal/ircserver/
// A services link with several pseudo-clients quits: the QUIT lines (and their reply ids) must be the same on every run.

import (
	"strings"
	"testing"

	"github.com/robustirc/robustirc/internal/robust"
	"gopkg.in/sorcix/irc.v2"
)

func quitOutput() string {
	i, ids := stdIRCServerWithServices()
	p := func(id robust.Id, line string) *Replyctx {
		return i.ProcessMessage(&robust.Message{Session: id}, irc.ParseMessage(line))
	}
	p(ids["mero"], "JOIN #test")
	for _, n := range []string{"NickServ", "ChanServ", "OperServ", "MemoServ", "HostServ", "BotServ"} {
		p(ids["services"], "NICK "+n+" 1 1422134861 services robustirc.net services.robustirc.net 0 :Operator Server")
		p(ids["services"], ":"+n+" JOIN #test")
	}
	r := p(ids["services"], "QUIT :bye")
	var out []string
	for _, m := range r.Messages {
		out = append(out, m.Id.String()+" "+m.Data)
	}
	return strings.Join(out, "\n")
}

func TestDemoServerQuitOrder(t *testing.T) {
	first := quitOutput()
	for n := 0; n < 50; n++ {
		if got := quitOutput(); got != first {
			t.Fatalf("output of the same input differs between runs:\n%s\n--- vs ---\n%s", first, got)
		}
	}
}
