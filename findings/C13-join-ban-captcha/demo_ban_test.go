package ircserver

import (
	"strings"
	"testing"

	"github.com/robustirc/robustirc/internal/robust"
	"gopkg.in/sorcix/irc.v2"
)

func TestDemoBanCaptcha(t *testing.T) {
	i, ids := stdIRCServer()
	i.Config.CaptchaURL = "http://localhost"
	i.Config.CaptchaHMACSecret = []byte("secret")
	p := func(id robust.Id, line string) string {
		r := i.ProcessMessage(&robust.Message{Session: id}, irc.ParseMessage(line))
		var out []string
		for _, m := range r.Messages {
			out = append(out, m.Data)
		}
		return strings.Join(out, "\n")
	}
	p(ids["secure"], "JOIN #test")
	p(ids["secure"], "MODE #test +x")
	p(ids["secure"], "MODE #test +b mero!*@*")
	s, _ := i.GetSession(ids["mero"])
	s.LastSolvedCaptcha = s.LastActivity // a captcha solved within the last minute
	out := p(ids["mero"], "JOIN #test")
	if !strings.Contains(out, " 474 ") {
		t.Fatalf("banned user joined +x channel: %s", out)
	}
}
