#!/usr/bin/env python3
"""One-off editor for DESIGN.md: replaces sections 1, 4 (tail), 5 and 6 by the as-built text and appends an
'As built' block to every property section. Kept for traceability; re-running is idempotent."""
import re, json, os
P = '/verif/DESIGN.md'
s = open(P).read()

# ---------------------------------------------------------------- section 1
SEC1 = r'''## 1. Architecture and interface (as built)

```
/verif/
  DESIGN.md  MANIFEST.json  known_findings.json  properties.jsonl
  check.sh                      # env hardening, rebuilds bin/verifcheck when a checker source is newer, dispatch:
                                #   ./check.sh C06 quick | thorough      (VERIF_REPO overrides /repo for development)
  checker/                      # Go module verif/checker (go 1.22), requires golang.org/x/tools v0.29.0
    cmd/verifcheck/             # CLI: -prop Cnn|all -tier quick|thorough [-dry] [-overlay file=replacement] [-mutants N]
    internal/load/              # go/packages loader (LoadAllSyntax, Dir=/repo, ./..., GOFLAGS=-mod=mod GOPROXY=off GOSUMDB=off
                                #   GOTOOLCHAIN=local, GOWORK off); any list/type error or < 15 module packages -> exit 2;
                                #   name look-ups; anchors.go + anchors.json: re-identification of renamed anchor entities
    internal/cfgx/              # statement-level CFG on top of go/cfg: one vertex per statement / condition, edges labelled with
                                #   the condition and its value (short-circuit && / || decomposed), facts at a vertex, edge
                                #   dominance by reachability-with-removal, post-dominance, "between", no-return calls
    internal/astx/              # resolved-syntax helpers: static callee, same-expression (objects, constants, stable aliases),
                                #   field selection, constant folding
    internal/flowx/             # flow-insensitive data + control dependence of a function (who-flows-into-what)
    internal/report/            # obligation records, floors, evidence writer, known-findings matching, replay files
    internal/rules/             # c01.go … c20.go one rule set per property; ircfacts.go (command registry, handler closures,
                                #   clause normal form), lockflow.go (must/may lockset data-flow), codec.go (field flow of codecs)
    internal/sens/              # thorough tier: seeded-change replays and statement-level variants (analysed, never executed)
  bin/verifcheck                # built by setup_cmd / check.sh, not committed
  evidence/Cnn.json             # rewritten on every run
  replay/                       # one JSON per reported violation (rule, key, file:line, detail); scratch, not committed
  seeded/<id>/                  # confirmed breaking changes (patch.diff, demonstration, meta.json) + MATRIX.md
  refactorings/<id>/            # confirmed behaviour-preserving changes (patch.diff, meta.json): every rule set must stay silent
  findings/<id>/                # demonstrations of the genuine defects found in robustirc (tests that fail before the fix)
  tools/                        # development aids (seedmatrix.sh, refaccheck.sh, mutkill.py, gen_manifest.py, …); no check uses them
```

`setup_cmd` builds the checker with the default go (1.23.5) — 40 s cold. A quick
check is one process: load (≈ 1.7 s warm: `go list` + type-check of the 21 module
packages and their dependencies from source), rules (< 0.5 s), evidence.

**Deviation from the plan.** The plan listed go/ssa + VTA call graphs. As built,
every rule works on the type-checked syntax, `go/cfg` refined to statement level
(`cfgx`) and a static call graph resolved through `go/types` (method values,
method expressions and the command registry are followed explicitly in
`ircfacts.go`). SSA turned out to be needed nowhere: the values that have to be
identified (`first`, keys, cursors, ids) are locals with few definitions, for
which reaching definitions on the statement CFG plus the path facts of `cfgx`
are exact, and SSA's synthetic thunks / rotated loops / spilled values made
construct keys unstable. The in-memory obligation-directed mutator was replaced
by the two mechanisms of the thorough tier below.

No hooks are needed in `/repo`: static analysis reads the tree as it is.
`MANIFEST.hooks` names the guard `verif` with no source commits. Changes to
`/repo` are only the sixteen `fix:` commits of section 5.

### Obligations

Every rule works the same way and this is what evidence reports:

1. **Enumerate** instances from the resolved program (e.g. "every `range` over
   a map in a function reachable from `applyRobustMessage`", "every statement
   that writes `channel.topic`"). Instances are keyed by
   `rule / package.function / construct descriptor`, **never by line number**;
   duplicates inside one function get an ordinal suffix.
2. **Discharge** each instance by one of the rule's enumerated justifications
   (a dominating guard, a pairing statement, a sorted-afterwards idiom, a listed
   invariant …). The accepted idioms were enumerated from what the code does at
   the majority of sites, confirmed by reading, and frozen in the rule; the 48
   behaviour-preserving refactorings of section 6 added the equivalent forms a
   maintainer would plausibly write (helper extraction, early return vs nesting,
   `switch` vs `if` chain, range vs index loop, either order of independent
   statements, introduced / inlined locals, renamed entities).
3. An instance that no justification discharges is **undecided = violation**
   (`VIOLATION property=Cnn replay=/verif/replay/Cnn-<key>.json`, exit 1)
   unless its key is in `known_findings.json` (then
   `KNOWN-FINDING: property=Cnn <what fails>`, exit 0).
4. **Vacuity guard**: each rule carries a floor for the number of instances it
   must find (well below today's count) and anchor entities that must resolve.
   Falling below a floor, an unresolved anchor, a type-check failure or a panic
   of the checker exit **2 with `CHECK-BROKEN` and without a VIOLATION line**.
5. Statuses in evidence: `discharged`, `exception` (one named construct + one
   line of reason, frozen in the rule), `assumed` (C06 only: parameter counts of
   lines from *authenticated services links*, which the property text exempts),
   `observation` (C20 lock order), `violation`.

**Borrowed rule sets.** Where the obligations of property Q are necessary
conditions of property P as well, P's check also runs Q's rule set; the
obligations appear as `P/Q.rule`. Table (`rules.go: alsoRuns`): C02←C03,
C05←C02,C09, C06←C14, C07←C09,C10,C02, C09←C18, C10←C07, C11←C17, C12←C14,
C16←C03. A known finding of Q also covers the same obligation under P.

**Renamed anchors.** The rules name ≈ 95 functions and ≈ 70 struct fields of
robustirc. `anchors.json` records, for each, a structural description taken from
the tree the rules were written on (function: package, receiver, signature and
the set of callees / fields / short string constants its body mentions; field:
struct, type and the functions using it). A name that no longer resolves is
re-identified with the unique entity of the same package/receiver/signature
(struct/type) whose description is ≥ 55 % similar with a 15-point margin; the
rules then see it under the recorded name and evidence lists the substitution
under `renamed_anchors`. The description is never used for a verdict. If nothing
matches, the anchor stays unresolved → `CHECK-BROKEN`. (Renames of the core
*types* — `IRCServer`, `Session`, `OutputStream` … — are not followed.)

**Stable aliases.** `astx.Same`/`Expand` see through a local that is defined
once, never reassigned or address-taken, and whose defining expression is pure
and reads only values that cannot change before any use (constants, other such
locals, unassigned parameters, range variables, fields of the incoming
`*irc.Message` the function never writes, `strings.*`/`ChanToLower`/`NickToLower`
calls): `lc := ChanToLower(name)` and `ChanToLower(name)` are the same key.
Field reads of mutable state (`s.Nick`) are never aliased.

### Tiers

* **quick** (≈ 2 s per property warm): load `/repo`, run the property's rule
  set and the borrowed ones, write evidence. This is the per-change check and the
  only thing that determines the exit code.
* **thorough** (≈ 1–2 min per property, 14 sub-processes): quick, plus a
  sensitivity analysis of the rule set *on this tree* (package `sens`), recorded
  under `coverage.sensitivity`:
  (a) every confirmed seeded change stored for the property
      (`seeded/<P>-*/patch.diff`) is applied to a scratch copy of `/repo`'s current
      working tree (a temp directory created and removed by the run) and the rule
      set is re-run on it (`-dry`); recorded as detected / missed /
      patch-does-not-apply;
  (b) statement-level variants of every function that carries one of the
      property's obligations: delete a simple statement, drop a guard (`if` whose
      body ends in return/continue/break), negate a condition, swap
      `&&`/`||`, `<`/`<=`, `==`/`!=` …; up to 320 variants, each handed to a
      sub-process as a `go/packages` overlay (nothing touches the disk tree),
      variants that do not type-check are discarded; recorded: generated /
      not compiling / noticed / silent, per kind, with samples.
  Variants are analysed, never executed. The numbers say how much of the anchored
  code the verdict depends on; a silent variant is not a violation (most are
  behaviour-preserving or irrelevant to the property: dropped log lines, metrics,
  `defer i.Release()`), so they **never influence the exit code**. During
  development the silent variants were additionally run against robustirc's own
  test suite (`tools/mutkill.py`, `go test -overlay`) and the survivors read one
  by one to find gaps in rules.

`VERIF_SEED` is recorded but nothing is random. Evidence level for every claimed
property is `other`; `coverage` carries `explanation`, `obligations`,
`discharged`, `exceptions`, `assumed`, `known_findings`, `samples` (actual
obligation records: every violation plus up to three per rule), `per_rule`
status counts, `exception_list`, `functions_analysed`, `rules`,
`renamed_anchors`, and for thorough `sensitivity`.

### Known findings

`/verif/known_findings.json` (committed; never written at run time): entries
`{property, rule, key, status: "known"|"fixed", commit?, what}`. `known`
entries turn the one matching obligation into a `KNOWN-FINDING:` line; any
*other* undischarged obligation of the same rule is still a VIOLATION.
`fixed` entries suppress nothing. A finding was recorded only after it had been
demonstrated against the real code (`findings/<id>/`: a test that fails on the
unrepaired tree).
'''

a = s.index('## 1. Architecture and interface')
b = s.index('## 2. Shared vocabulary')
s = s[:a] + SEC1 + '\n---------------------------------------------------------------------------\n\n' + s[b:]

# ---------------------------------------------------------------- per-property as-built blocks
AS = {
'C01': '''R1–R6 as planned (52 obligations; scope 92 functions — the planned "132" counted SSA thunks). R1 idioms added
while building: path-sensitive collect-then-sort (every use of the collected slice after the loop is dominated by a sort of it),
error exits inside loops (which error is reported first is not state), *constant early exit* (an existential search whose every
`return` inside the loop returns the same constants and whose body has no other effect — e.g. a helper `sharesChannelWith`).
`io.Writer` on a hash is classified pure. **Tree:** the `cmdServerQuit` violation was genuine (messages in map order) and is
repaired (`25b91f4`, sorted sub-sessions); 6 exceptions (first-match loops by unique nickname, `Marshal` order). Seeds C01-A/B/C
(unsorted NAMES list, `time.Now()` in a handler, map-order KILL fan-out) are all reported by R1/R2.''',
'C02': '''N1–N6 as planned, plus rules added after seeding: **N2c** the base state for folding is the *newest* recorded state
older than `first` (strict `<`, maximum selection), **N5b** length prefix width/byte order agreement of `writeLenPrefixed` and the
decoder, **no-live-globals** (the fold runs on the temporary server: `applyRobustMessage` may not touch the live server through
package state), N3 generalised to "the error of the store call reaches a fatal test before any other use" (shared `err` test of
two branches accepted). Borrows C03. **Tree:** N2 was genuine — `Snapshot` filed the folded state under the pre-loop index when
every entry was older than the horizon, and looked the base state up under exactly `first-1` — repaired in `62ca16c`.
Seeds: C02-A/B/C detected (N1, N2, N2c).''',
'C03': '''K1–K5 as planned plus **K1b** (`sessions[k].Id == k`), **K4b**, **K6** (the writer never emits the legacy "unset"
enum value the reader special-cases), **K7** (copy loops copy every element: no `continue`/`break`/conditional emit). **Tree:**
K4 genuine (nick-less sessions indexed under `""`), repaired in `6f88b4a`. Two **known findings** (K1 ×2, also C16.V5 ×2):
`config.Network.WhitelistedOrigins` is neither written nor restored by the snapshot — repairing it needs a new field in
`pb.Snapshot_Config`, i.e. regenerating `robustirc.pb.go` with protoc, which is not installed; recorded, not patched.
Seeds C03-A/B/C detected (K1/K3/K6/K7).''',
'C04': None,
'C05': '''A1–A3 as planned; **A4** added after seed C05-C: in `api.getMessages` a batch returned by `GetNext` is sent to the
connection only on the false edge of `<batch id> < <client position>` (either operand order / operator form) and only after the
position was advanced to it on every path from `GetNext`. Borrows C02 and C09. **Tree:** all discharged. Seeds: C05-A (N2c via
C02), C05-B (C09.L4), C05-C (A4).''',
'C06': '''G1–G9 as planned, 464 obligations + C14 borrowed; `assumed` = parameter-count / prefix obligations in code
reachable only through `server_` keys (22). G2 idioms (closed list): constant within array, range index over the same operand,
loop variable counting from a non-negative constant below `len` of the same operand (also for `msg.Params`), case-pinned or
equality-pinned constant within the array, dominating length test, checked `strings.Index*` result, `HasPrefix` + len, constant
`make` length, field-length invariant of `modeCmd.Mode`; three frozen exceptions with a *checked* side condition each (e.g.
`s.auth[:8]`: `handleCreateSession` provably creates ≥ 8 hex characters, via `%x` or `hex.EncodeToString`). **Tree:** four genuine
defects, all repaired: TOPIC by a non-member (`fc1b879`), ignored `createSessionLocked` error in services NICK (`54e23d1`),
ignored `url.Parse` error (`7e91e79`), case-only SVSNICK (`6526cc7`, found through C14.M2). Seeds C06-A/B/C detected (A through
the borrowed C14.M1).''',
'C07': '''D1–D5 as planned; D2 strengthened after seeding (the marked copy is the one that is persisted: same variable, type
rewritten before `StoreLogs`, `log.Fatal`/exit only after the store call succeeded); **D4b** (an early-return shape check) was
*removed*: it fired on a behaviour-preserving rewrite, i.e. it demanded more than the property. Borrows C09, C10 (the
duplicate-detection marker advances for skipped entries: U3) and C02 (every entry is re-filed in the irclog before it is applied or
skipped: N3). **Tree:** all discharged. Seeds: C07-A (C02.N3), C07-B (D2), C07-C (C10.U3).''',
'C08': '''S1–S4 as planned; S1 uses reaching definitions with path facts. S3 strengthened after seeds C08-A/C: the eviction is on
*every* path on which the record is mutated (dominates or post-dominates the LevelDB call) — directly or through a helper that
evicts the entry of its parameter on every path under `cacheMu` —, and `getUnlocked` never assigns its `id` parameter (the batch is
cached under the id asked for). **Tree:** two **known findings** (S1 ×2): `GetNext`'s wait loop re-reads the batch with
`current, _ = os.getUnlocked(…)` and dereferences it; if that batch is deleted (compaction of the newest batch) before the next `Add`
the reader goroutine panics (`findings/C08-getnext-deleted-while-waiting`). A correct repair has to redo the successor search inside
the loop — not small and safe — so it is recorded, not patched. Seeds C08-A/B/C detected.''',
'C09': '''L1–L4 as planned; L5 is realised by borrowing C18 (F2 catches a conditional / forgotten field copy into a reused
struct), L6 by C20. L1 strengthened after seed C09-C: the stable-store prefix test in `FirstIndex`/`LastIndex` is the condition of
a `for` (all such keys are skipped, not one). **Tree:** all discharged. Seeds C09-A (C18.F2), C09-B (L3), C09-C (L1).''',
'C10': '''U1–U4 as planned; U2 strengthened after seeding (the marker is recorded on the *acting session*, same receiver as
the look-up). Borrows C07. **Tree:** all discharged. Seeds C10-A…D detected.''',
'C11': '''H1–H5 as planned. Corrections while building (false alarms of the first version, machinery fixed): the `lastSeen` path
component was mistaken for a session id → parameter sensitivity; `maybeProxyToLeader` was treated as a private handler → only direct
callees of `DispatchPrivateWithoutAuth` are; a constant-time rewrite of the secret comparison must pass → `subtle.ConstantTimeCompare(..) == 1`
and `&`-combined forms are accepted. Borrows C17. **Tree:** all discharged. Seeds C11-A/B/C detected.''',
'C12': '''T1–T6 as planned (T3 is decided inside T2's classification: 204 send sites). T6 accepts the +G test through a helper
predicate "the two sessions share a channel" (checked structurally) and requires *every* alternative of a disjunctive guard to contain
an accepted literal. Borrows C14. **Tree:** T2 genuine — services JOIN/PART were announced with `sendCommonChannels(session)` and
reached sessions not on the channel — repaired in `0943873`. Seeds C12-A/B/C detected.''',
'C13': '''E1–E11 as planned. E8 accepts the flag being assigned the comparison itself; E10 follows the dispatch look-up into a
helper called with `s.Server` and the upper-cased command; E11 (captcha) checks the time unit of the expiry comparison. **Tree:** two
genuine defects repaired: TOPIC unset before the membership test (`fc1b879`), solved captcha lifting a ban (`47c41ca`). Seeds
C13-A/B/C detected.''',
'C14': '''M1, M2, M4, M5, M6 as planned (the planned M3 "sibling agreement" is folded into M1/M2: every writer of the four
relations is enumerated and must pair). Added after seeding: the session whose `Channels` is changed *owns* the member key; the
guard set of an insertion; freshness of counts compared with limits. M1 pairing accepts either order of the two writes (nothing reads
the relations in between). Private struct copies with freshly allocated maps (`GetSessions`) are not state. **Tree:** two genuine
defects repaired: services channel limit (`33f6f01`), case-only SVSNICK (`6526cc7`). Seeds C14-A/B/C detected.''',
'C15': '''W1–W4 as planned; `msg.String()` is accepted next to `Bytes()` (same truncating serializer). **Tree:** W2 genuine at two
sites (POST cut only LF; DELETE's quit message unfiltered) — repaired by `sanitizeLine` in `07afe67`. Seeds C15-A/B/C detected.''',
'C16': '''V1–V5 as planned plus **V3b** (the installed value is the parsed one, direct alias) — the first alias check via
flow-insensitive dependence false-alarmed and was replaced. Borrows C03 (replicas that load the configuration from a snapshot must get
the same one). **Tree:** the `WhitelistedOrigins` known finding of C03 appears here as V5 ×2 (and as borrowed K1 ×2). Seeds C16-A/C
(V2/V3), C16-B (C03.K3: the hex decoding of the captcha secret dropped in `Unmarshal`).''',
'C17': '''Y1–Y5 as planned plus, after seeding, **Y2b** (the API maps exactly `ErrSessionNotYetSeen` / `ErrNoSuchSession`, error
identity) and sweep coverage in Y4 (every relation that names the session is cleaned). **Tree:** all discharged. Seeds C17-A/B/C
detected.''',
'C18': '''F1–F4 as planned plus **F1b** (nested id components), F3 overwrite check (the marker byte is not overwritten by a later
copy). F2 groups copy sites by innermost block, so a field copied only under a condition is "forgotten" by the unconditional group.
F4 (script symmetry) accepts range and index loops on either side. **Tree:** all discharged. Seeds C18-A/B/C detected.''',
'C19': '''Z1–Z5 as planned plus **Z1b** (flag passed to the parameter of the same name) and **Z3c** (a peer that did not answer
does not enter the minimum). **Tree:** all discharged. Seeds C19-A/B/C detected.''',
'C20': '''Q1–Q4 as planned: 426 guarded accesses. Q3 has two parts: shallow copies of guarded structs escaping, and (after seed
C20-A) a returned structure that still aliases a guarded map/slice taken as a whole under the lock. Private struct copies are
exempt. **Tree:** five genuine races, all repaired (the plan expected to record them): `ThrottleUntil` (`c96f028`), `Marshal` vs
`lastProcessed` (`e45b3c5`), `NickWithFallback` (`c4ce9b0`), `GetSessions` (`99c83e8`), `Unmarshal` on a published server (`4ca7079`).
4 exceptions (construction before publication). Seeds C20-A/B/C detected.''',
}
for pid, text in AS.items():
    if text is None:
        continue
    m = re.search(r'^### %s — .*$' % pid, s, re.M)
    assert m, pid
    nxt = re.search(r'^(### C\d\d — |## 4\. )', s[m.end():], re.M)
    end = m.end() + nxt.start()
    block = s[m.end():end]
    block = re.sub(r'\n\*\*As built[\s\S]*$', '\n', block)   # idempotent
    text = ' '.join(l.strip() for l in text.strip().split('\n'))
    import textwrap
    wrapped = textwrap.fill('**As built (supersedes "Today\'s tree" and the planned repairs above).** ' + text, 100)
    s = s[:m.end()] + block.rstrip('\n') + '\n\n' + wrapped + '\n\n' + s[end:]

# ---------------------------------------------------------------- sections 5 and 6
SEC56 = r'''## 5. Results on the tree: genuine defects, known findings, false alarms

Every first report of a rule on the unchanged tree was triaged as the brief
demands: is robustirc wrong (demonstrate it against the real code), or is the
check wrong?

### 5.1 Genuine defects, repaired (`fix:` commits in /repo, suite unedited and green)

| commit | property.rule | what failed (demonstration) |
|---|---|---|
| `6f88b4a` | C03.K4 | `Unmarshal` indexed nick-less sessions under `""` |
| `62ca16c` | C02.N2 | `Snapshot` filed the folded state under a stale index when a snapshot compacted everything; base state looked up under exactly `first-1` |
| `fc1b879` | C06.G3, C13.E2 | `TOPIC #c :` by a non-member: nil dereference on `+t`, unauthorised clear on `-t` |
| `47c41ca` | C13.E9 | a solved captcha on a `+x` channel skipped the ban test (`findings/C13-join-ban-captcha`) |
| `6526cc7` | C14.M2, C06.G3 | case-only `SVSNICK` dropped the session from the nick index; next `MODE` panicked (`findings/C06-svsnick-case-only`) |
| `33f6f01` | C14.M5 | services JOIN / SVSJOIN created channels beyond `MaxChannels` (`findings/C14-services-channel-limit`) |
| `0943873` | C12.T2 | services JOIN/PART announced to every session sharing *any* channel (`findings/C12-services-join-leak`) |
| `07afe67` | C15.W2 | CR / NUL in posted lines, CR/LF in DELETE quit messages reached other clients (`findings/C15-crlf-injection`) |
| `25b91f4` | C01.R1 | QUIT of a services link announced its pseudo-clients in map order (`findings/C01-server-quit-order`) |
| `c96f028` | C20.Q1 | `ThrottleUntil` wrote under a read lock |
| `e45b3c5` | C20.Q1 | `Marshal` read `lastProcessed` without its mutex |
| `c4ce9b0` | C20.Q1/Q3 | `NickWithFallback` read `Session.Nick` through an escaped pointer |
| `99c83e8` | C20.Q3 | `GetSessions` copies shared maps with live sessions |
| `4ca7079` | C20.Q2 | `Restore` published the new server before `Unmarshal` wrote it without locks |
| `54e23d1` | C06.G4 | services NICK ignored the error of `createSessionLocked` → nil session |
| `7e91e79` | C06.G4 | `generateCaptchaURL` ignored the error of `url.Parse` → nil URL |

Each is one minimal unguarded commit, corrects (not removes) behaviour, passes the
unedited suite including the textual `TestLockDefer`, and is recorded as
`fixed` in `known_findings.json` (suppresses nothing: the obligation is checked
on every run and would be reported again).

### 5.2 Known findings (genuine, recorded, not repaired)

| property | obligation keys | why not repaired |
|---|---|---|
| C03.K1 ×2 = C16.V5 ×2 | `Marshal` reads / `Unmarshal` writes `config.Network.WhitelistedOrigins` | needs a new field in `pb.Snapshot_Config`, i.e. regenerating `robustirc.pb.go`; protoc is not installed in the sandbox |
| C08.S1 ×2 | `GetNext` wait loop: `current.NextID`, `current.Messages` after `current, _ = getUnlocked(…)` | a correct repair re-does the successor search inside the wait loop (behavioural change of ≈ 30 lines in the most delicate function of the package); not "small and safe" |

On the unchanged tree the affected checks (C02, C03, C16; C08) print the
`KNOWN-FINDING:` lines and exit 0; any other obligation of K1/V5/S1 is still a
VIOLATION.

### 5.3 False alarms: the check was wrong, the machinery was corrected

Never listed as findings. In the order met: go/cfg does not decompose `&&`/`||`
(facts lost) → `ExpandCond`/clause normal form; C07.D4b demanded an early-return
*shape* → removed; C16 alias check by flow-insensitive dependence → direct-alias
rule; C11 `lastSeen` taken for a session id, proxy taken for a handler,
constant-time compare rejected → parameter sensitivity, direct callees only,
accepted comparison forms; C13 loop back-edge made a join rule vacuous and then
false → per-iteration edge choice; C18 empty size loop / nested id / result
variable inside a deferred literal; C15/C12 `msg.String()`; C01 scope floor too
high, `io.Writer` on a hash; C20/C14 private struct copies; duplicate obligation
keys. The 48 behaviour-preserving refactorings of section 6 produced 14 further
false alarms, all corrected in the rules (constant early exit; helper predicates
and helper evictors; either order of paired writes; range ↔ index loops in G1 and
in the codec script; equality-pinned index; `hex.EncodeToString`; comparison
assigned to the flag; shared error test after two branches; dispatch look-up in a
helper; introduced locals → stable aliases; renamed function / field → anchors).

---------------------------------------------------------------------------

## 6. Validating the checker: what was tried, what is caught, limits

**Seeded breaking changes (58, all confirmed).** Fresh sub-agents were given only
the text of one property and a scratch git worktree of `/repo` and asked for three
(C10: four) independent changes that break the property, still compile and leave
the 161 tests green, each with a demonstration that fails with the change and
passes without. Every change was re-confirmed here in a scratch worktree
(`tools/verify_seed.sh`: build, full suite, demonstration both ways) and stored
under `seeded/<P>-<L>/`. None was ever committed to `/repo`.
`seeded/MATRIX.md` is regenerated by `tools/seedmatrix.sh` (each patch applied
to a scratch copy of `/repo`'s working tree, the property's check run on it) and
the thorough tier repeats it per property. State: **58 / 58 reported**, each by
an obligation that names the changed construct. 28 of them were *missed* by the
rule set as first written and led to the rules marked "after seeding" in section
3 (round 1: C02.N2c/N5b/no-live-globals, C03.K6/K7, C05←C02,C09, C07.D2, C10.U2,
C11 gate details; round 2: C12 helper summaries, C13.E11, C16.V3b, C17.Y2b/Y4,
C18.F1b/F3, C19.Z1b/Z3c; round 3: C08.S3 ×2, C09.L1, C09←C18, C20.Q3 aliasing;
finally C05.A4 and the borrows C07←C10,C02 and C16←C03, which closed C05-C,
C07-A, C07-C, C16-B). That the corpus is now fully detected says the rules were
fitted to it; the honest generalisation estimate is the **first-contact rate**,
re-measured by running the checker version that preceded each seeding round
against that round's changes: round 1: 5 / 19, round 2: 12 / 21, round 3:
13 / 18 — 30 of 58 overall, rising as the rule sets matured. A breaking change
of a kind not represented in the corpus has, on this evidence, roughly a
two-in-three chance of being reported by the current rules.

**Behaviour-preserving changes (48).** Six further sub-agents (one per code
area) each wrote eight strictly behaviour-preserving refactorings of the kind a
maintainer makes (extract / inline helper, rename, guard clauses, `switch` ↔
`if`, loop forms, reorder independent statements, stdlib idiom, move between
files, error-propagation style), each verified to build and pass the suite.
Stored under `refactorings/`; `tools/refaccheck.sh` runs **all 19 rule sets** on
each. First contact: 34 silent, 14 false alarms (section 5.3). Now: 48 / 48
silent. Five additional rename stress runs (25 unexported functions, 20 fields
and locks renamed with `sed`, builds verified) are silent as well.

**Statement-level variants.** See "Tiers". Example (C08, 107 variants of the
nine obligation-carrying functions): 8 do not compile, 43 noticed, 56 silent; of
the 56, 37 are killed by robustirc's own tests and the 19 survivors were read:
dropped `defer i.Release()`, dropped `log.Panicf` on impossible states, cache size
thresholds, error paths of `reset` — none breaks C08.

**What no rule here can see.** Everything that is not in the shape of the code:
whether `GetNext` is linearizable (C08), whether a retry arrives before or after
the first copy is applied (C10), delivery order under fail-over (C04, C05),
value-level round trips (C18: legacy JSON of non-UTF-8 text), numeric soundness
of the clock bound (C19). A change that keeps every structural clause intact and
is wrong only in arithmetic or timing is missed. Conversely, an edit that
restructures an anchored function beyond the enumerated idioms makes the
affected obligation *undecided*, which is reported as a violation: the bias is
deliberate for a state machine whose panic kills every node, and the idiom lists
are where maintenance of this checker happens.

**What the installed tooling cannot do.** No pointer analysis (`go/pointer` is
absent from x/tools v0.29.0): aliasing is handled by type identity, who-writes
closures and the escape rules of C20.Q3, which suffices because state is reached
through one `*IRCServer` and field paths. No protoc (the `WhitelistedOrigins`
finding cannot be repaired). Numeric reasoning would need a solver or a proof
assistant — a different technique family, not used.

**Cost.** setup ≈ 40 s cold; quick ≈ 2 s per property warm (35 s cold cache);
thorough 1–2 min per property on 16 cores (sub-processes < 1 GB each, 14 at a
time); temp directories are created under the system temp dir and removed by the
run; nothing else is written outside `/verif/evidence`, `/verif/replay` and the
Go build cache.
'''
a = s.index('## 5. Expected results on the unchanged tree')
s = s[:a] + SEC56
# section 4: reason text for C04 stays; adjust two phrases
s = s.replace('main analyses | level |', 'main analyses (as built: typed syntax + statement CFG, no SSA) | level |')
s = s.replace('''5. Expected results on the unchanged tree (findings to triage, planned `fix:` commits)
6. Checker validation (both ways), failure modes, limits of the tooling''', '''5. Results on the tree: genuine defects repaired, known findings, false alarms corrected
6. Checker validation: 58 seeded breaking changes, 48 behaviour-preserving changes, variants, limits''')
s = s.replace('(through `go/packages`, `go/types`, `go/cfg`, `go/ssa`, call\ngraphs)', '(through `go/packages`, `go/types`, `go/cfg` and call graphs resolved\nfrom type information)')
open(P, 'w').write(s)
print(len(s.splitlines()), 'lines')
