#!/bin/bash
# tools/verify_seed.sh <seed-out-dir> <letter> <property>   development aid
# Confirms a sub-agent's seeded change in a scratch worktree of /repo HEAD (builds, suite passes, demo fails with / passes without),
# then stores it as /verif/seeded/<property>-<letter>/ {patch.diff, demo file, meta.json}.
set -u
SRC="$1"; L="$2"; P="$3"
export GOFLAGS=-mod=mod GOPROXY=off GOSUMDB=off GOTOOLCHAIN=local; unset GOWORK
W=/tmp/vw-$P-$L
git -C /repo worktree remove --force $W 2>/dev/null; rm -rf $W
git -C /repo worktree add -q --detach $W HEAD || exit 2
CMD=$(jq -r .demo_cmd "$SRC/$L.meta.json" | sed -E 's/ {2,}\(.*$//')   # a trailing explanation in parentheses is not part of the command
CMD=$(echo "$CMD" | sed -E "s#<repo>#$W#g; s#<worktree>#$W#g; s#/tmp/wt[0-9]*-[A-Z0-9]+#$W#g; s#cp ([A-Z]+\.demo[_a-z.]*go)#cp $SRC/\1#")
res() { echo "$1"; }
cd $W
clean=$(bash -c "$CMD" 2>&1 | tail -3 | grep -c "^ok")
DEMOFILE=$(git status --porcelain | awk '{print $2}' | head -1)
cp "$W/$DEMOFILE" /tmp/demo-$P-$L.go; rm -f "$W/$DEMOFILE"
if ! git apply "$SRC/$L.patch.diff" 2>/dev/null; then git apply --3way "$SRC/$L.patch.diff" || { echo "$P-$L: PATCH DOES NOT APPLY to HEAD"; git -C /repo worktree remove --force $W; exit 3; }; fi
git add -N . && git diff > /tmp/patch-$P-$L.diff; git reset -q   # the change as it applies to today's HEAD (a 3-way merge may have shifted context)
build=$(go build ./... 2>&1 | wc -l)
suite=$(go test -vet=off -count=1 $(go list ./... | grep -v mod_test) 2>&1 | grep -c "^FAIL\|^--- FAIL\|panic:")
with=$(bash -c "$CMD" 2>&1 | tail -5 | grep -c "^FAIL\|^--- FAIL")
echo "$P-$L: demo-on-clean-pass=$clean build-errors=$build suite-failures=$suite demo-with-change-fails=$with demofile=$DEMOFILE"
if [ "$clean" -ge 1 ] && [ "$build" = 0 ] && [ "$suite" = 0 ] && [ "$with" -ge 1 ]; then
  D=/verif/seeded/$P-$L; mkdir -p $D
  cp /tmp/patch-$P-$L.diff $D/patch.diff; cp /tmp/demo-$P-$L.go "$D/$(basename $DEMOFILE)"
  jq --arg place "$DEMOFILE" --arg ran "scratch worktree of /repo HEAD $(git -C /repo rev-parse --short HEAD): demo on clean tree passed; with patch: go build ok, go test ./... (without mod_test) passed, demo failed" \
     '. + {demo_file: $place, confirmed: $ran}' "$SRC/$L.meta.json" > $D/meta.json
  echo "  -> kept in $D"
else
  echo "  -> NOT kept"
fi
rm -f /tmp/demo-$P-$L.go /tmp/patch-$P-$L.diff
cd /; git -C /repo worktree remove --force $W
