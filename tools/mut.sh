#!/bin/bash
# tools/mut.sh <props comma-separated> <file-relative-to-/repo> <perl-substitution>   (development aid, not a registered check)
# Applies a one-off mutation to /repo's working tree, verifies it still builds, runs the quick checks, reverts.
set -u
PROPS="$1"; FILE="$2"; EXPR="$3"
export GOFLAGS=-mod=mod GOPROXY=off GOSUMDB=off GOTOOLCHAIN=local; unset GOWORK
cd /repo || exit 2
if [ -n "$(git status --porcelain)" ]; then echo "repo dirty"; exit 2; fi
perl -0pi -e "$EXPR" "$FILE"
if [ -z "$(git status --porcelain)" ]; then echo "MUTATION DID NOT APPLY"; exit 3; fi
git diff | grep '^[-+]' | grep -v '^+++\|^---' | head -20
if ! go build ./... 2>&1 | head -5 | grep -q .; then echo "[builds]"; else echo "[DOES NOT BUILD]"; go build ./... 2>&1 | head -5; fi
if [ "${RUNTESTS:-0}" = 1 ]; then go test -vet=off -count=1 ./... 2>&1 | grep -v "^ok\|no test files" | head; fi
cd /verif
for p in ${PROPS//,/ }; do ./check.sh $p quick 2>&1 | grep -E "VIOLATION|CHECK-BROKEN|violated:|quick:" | cut -c1-260; done
git -C /repo checkout -- . 
