#!/usr/bin/env python3
"""tools/mutkill.py <Cnn> [jobs]   development aid (not part of any check).
For the statement-level variants that `./check.sh Cnn thorough` left silent, run robustirc's own test suite on each
(go test -overlay, /repo itself is not modified) and list the ones the suite does not kill either: these are the
candidates to read when looking for gaps in a rule set (most are equivalent or property-irrelevant variants)."""
import json, os, subprocess, sys, tempfile, concurrent.futures as cf
prop = sys.argv[1]; jobs = int(sys.argv[2]) if len(sys.argv) > 2 else 5
env = dict(os.environ, GOFLAGS="-mod=mod", GOPROXY="off", GOSUMDB="off", GOTOOLCHAIN="local"); env.pop("GOWORK", None)
muts = [m for m in json.load(open(f"/verif/replay/{prop}-mutants.json")) if m["status"] == "silent" and m.get("content")]
pkgs = subprocess.run("go list ./... | grep -v mod_test", shell=True, cwd="/repo", env=env, capture_output=True, text=True).stdout.split()
def run(m):
    with tempfile.NamedTemporaryFile("w", suffix=".json", delete=False) as f:
        json.dump({"Replace": {m["file"]: m["content"]}}, f); ov = f.name
    try:
        r = subprocess.run(["go", "test", "-overlay", ov, "-vet=off", "-count=1", "-timeout", "10m"] + pkgs, cwd="/repo", env=env, capture_output=True, text=True)
        return m, r.returncode, (r.stdout + r.stderr)
    finally:
        os.unlink(ov)
surv = []
with cf.ThreadPoolExecutor(jobs) as ex:
    for m, rc, out in ex.map(run, muts):
        tag = "SURVIVES" if rc == 0 else ("build-fail" if "[build failed]" in out else "killed")
        if rc == 0: surv.append(m)
        print(f"{tag:10} {m['function'].split('.')[-1]:28} {m['pos'].split('/')[-1]:24} [{m['kind']}] {m['what']}", flush=True)
json.dump(surv, open(f"/verif/replay/{prop}-survivors.json", "w"), indent=1)
print(f"{len(surv)} of {len(muts)} silent variants also pass the test suite")
