#!/usr/bin/env python3
"""Generates /verif/MANIFEST.json from the table below (kept in one place so
that the manifest stays valid and current as checks are added)."""
import json, os, sys

HERE = os.path.dirname(os.path.dirname(os.path.abspath(__file__)))

NOTE_COMMON = ("Trusted base: go/packages + go/types type-check of /repo's working tree (a tree that does not "
               "type-check makes the check exit 2, never 0), go/cfg control-flow graphs, the frozen idiom/exception "
               "tables printed in evidence, and the classification of third-party callees in DESIGN.md section 2. "
               "Nothing is executed.")

# id -> (technique, level text, level note, design ref)
CLAIMS = {
    "C04": (
        "protocol-shape analysis of the GetMessages resume path on the statement-level CFG: reaching definitions of the client position, path facts at every send of a batch (slice low bound = position.Reply under the in-range test; follow loop: send dominated by the false edge of 'batch older than position', position advanced first, equal-id batch re-sliced before the advance, back-off edge strict), dominance of the per-session filter over every JSON write, def-use of the two parts of lastseen into the position literal, cancel-before-store and register-before-start ordering for the per-session request table",
        "Partial: decides six structural clauses of the resume protocol of GetMessages (remainder of the named batch sliced at exactly lastseen.Reply in range; follow loop never goes backwards and never holds back a batch with the position's own id; "
        "a batch applied only after the request started is re-sliced at the position; per-session filter on every write; position built from the two parts of lastseen in order; one reader per session), each a necessary condition of 'nothing missing, nothing twice'. "
        "Delivery under concurrent Add/Delete inside GetNext and the window in which a lagging node catches up past the named batch between two look-ups are schedules and are not decided (one such loss is described in DESIGN.md, C04).",
        NOTE_COMMON + " A genuine duplicate-delivery defect found by P3 was repaired (fix: 4b14e3c; findings/C04-resume-duplicates).",
        "DESIGN.md section 3, C04"),
    "C06": (
        "exhaustive enumeration and discharge of every potentially panicking construct in the call closure of ProcessMessage over all registered handlers: parameter-count bounds propagated from the registry and direct calls (fixed point) and refined by dominating length tests; closed idiom list for index/slice expressions; reaching-definition nil analysis of every dereference of session/channel/member/message/prefix/URL pointers with path facts and the named state invariants; dropped-error, nil-map, termination-call, assertion/division, recursion and lock re-entry checks",
        "Panic-freedom of the state-machine step by obligation discharge, for all reachable states and all next lines at once: ~400 obligations (every msg.Params access, every index/slice expression, every pointer dereference, every lock acquisition inside the step, every error-returning call) are each discharged by a local guard, a registry bound, or one of the state invariants I0-I4 (whose preservation is C14's pairing rules, run as part of this check). "
        "Assumes the named invariants, the frozen exceptions listed in evidence, that third-party libraries do not panic on the argument shapes used, and — for authenticated services links only — protocol-conforming lines (parameter counts and prefixes in code reachable only through server_ keys are recorded as assumed).",
        NOTE_COMMON,
        "DESIGN.md section 3, C06"),
    "C20": (
        "static lockset / ownership analysis: frozen lock table (field -> mutex), enumeration of every read and write of a guarded field in main/api/ircserver/outputstream/raftstore, forward must-lockset data-flow per function with entry locksets propagated over the call graph (intersection over call sites; registry handlers inherit the dispatcher's lockset), mode check (write needs W), construction/immutability exemptions, call-site obligations for methods that do not lock, escape check for copies carrying maps",
        "Decides, at type level, that every pair of accesses to IRC server, output stream, store and api.HTTP state that two roles can perform concurrently shares a lock in a sufficient mode: all ~775 guarded field accesses are covered on every path (the race detector only samples schedules). "
        "Not instance-sensitive (two LevelDBStore instances, the temporary server in Snapshot) — handled by the freshness / call-site rules and one reasoned exception group; lock order (a ConfigMu/sessionsMu inversion exists) is reported as an observation, not as a race.",
        NOTE_COMMON,
        "DESIGN.md section 3, C20"),
    "C01": (
        "non-interference argument over the call closure of FSM.applyRobustMessage (all registered handlers): effect classification of every range-over-map body (collect-then-sort with path-sensitive sort check, set building, per-iteration object, commutative flag, unique match by key), classification of every external callee (clock / randomness / environment / scheduler / zone-dependent time methods), who-writes of package variables and reply ids, absence of goroutines/channels/select and pointer formatting",
        "A sufficient static condition decided for all entry histories at once: no source of nondeterminism (map iteration order, wall clock, time zone, randomness, environment, goroutine timing, mutable package state, address formatting) is reachable from the state-machine step; "
        "if every obligation is discharged, two executions of the same entry sequence cannot differ, modulo the trusted classification of third-party callees (sorcix/irc, toml, protobuf, regexp, fmt) and the listed exceptions "
        "(unique first-match loops justified by nickname uniqueness; snapshot field order, which reaches only map inserts).",
        NOTE_COMMON,
        "DESIGN.md section 3, C01"),
    "C15": (
        "who-constructs / who-writes closure of the delivered bytes (single producer using the library's truncating serializer, constant read from the dependency's source), taint def-use from request fields to proposed entries with a closed recogniser of cut-at-first sanitisers (byte sets evaluated with go/constant), constant scan, command well-formedness at every send site",
        "Partial (a sufficient condition): decides that every delivered line is produced by send() through Message.Bytes() (<= 510 bytes), that the store and the API hand the bytes on verbatim, "
        "that every client-controlled string proposed as IRCFromClient/DeleteSession data is cut at the first LF, CR or NUL, that the server's own constants contain none of these bytes, and that every sent message has a well-formed command. "
        "Third-party formatting of error texts echoed into replies is not decided.",
        NOTE_COMMON,
        "DESIGN.md section 3, C15"),
    "C08": (
        "reaching-definition + path-fact analysis of every dereference of getUnlocked's result, must/may lockset data-flow over the statement-level CFG (Wait under the write lock, Broadcast under the lock, every return releases, no upgrade), dominance of Broadcast by the successful write, pairing of every batch rewrite/deletion with the cache eviction in the same critical section",
        "Partial: decides four structural necessary conditions of 'never panics / never stays blocked although a successor exists' in the output stream: checked look-ups, condition-variable discipline, cache coherence and lock hygiene "
        "(the file is whitelisted from the project's own textual lock test). Correctness of GetNext under all interleavings of Add/Delete/GetNext is a schedule property and is not decided.",
        NOTE_COMMON + " Known finding: the wait loop's unchecked look-up (findings/C08-getnext-deleted-while-waiting).",
        "DESIGN.md section 3, C08"),
    "C09": (
        "sibling-agreement and key-derivation analysis of the LevelDB store's methods (constant-prefix identity, byte-order object identity, def-use of database keys), facts at the error-mapping returns, shape of the index scans, interval-convention check at every GetBulkIterator call site",
        "Partial: decides key-space separation between log entries and stable-store keys, agreement of the four stable-store methods and of the log writers, the error contract (raft.ErrLogNotFound, zero value for missing keys, index 0 only for an empty log), "
        "and the half-open interval convention at the iterator and every caller (inclusive bound + 1; DeleteRange covers [min,max] and deletes every key). Equality with an in-memory model over all operation sequences and reopen points is behavioural and not decided.",
        NOTE_COMMON,
        "DESIGN.md section 3, C09"),
    "C18": (
        "per-site field-correspondence analysis of every hand-written copy between robust.Message/pb.RobustMessage and raft.Log/pb.RaftLog (like-named source field, completeness per literal/block, nested id components), enum-constant agreement from go/types constants, framing rule over every proto.Marshal/Unmarshal site, script extraction and item-by-item comparison of the output batch writer and reader including cursor increments and the symbolic size pre-computation",
        "Structural completeness and agreement (same kind as C03): decides that no encoder/decoder copy in the module forgets or swaps a field, that enum numbers agree, that the id default is guarded by the zero test, "
        "that every protobuf value written gets the marker byte every reader tests and strips, and that the output-store batch codec's write script equals its read script (order, width, byte order, loops, cursor advance, buffer size). "
        "Value-level round-trip equality for all inputs (e.g. JSON legacy encoding of non-UTF-8 text) is not decided.",
        NOTE_COMMON,
        "DESIGN.md section 3, C18"),
    "C12": (
        "classification of every send call site (command class x prefix class x helper x recipient class, message literal resolved through locals and nested sends) against a frozen routing table, structural summaries of the six send helpers (range source, single exclusion, single insertion), who-writes of recipient sets and cached prefixes, must-follow updateIrcPrefix, clause/path rules for +n and +G",
        "Partial: decides that recipients are computed only by the six helpers and that each helper adds exactly its documented set; that every one of the ~200 send sites routes its message class to an entitled recipient class "
        "(server replies to the causing session or services, relays to the channel minus sender / the looked-up target, JOIN/PART/KICK/TOPIC/MODE to the affected channel, NICK/QUIT to sessions sharing channels, ERROR only to a session being closed); "
        "that client-reachable code never uses the client-supplied prefix and prefixes are cached-session or server prefixes; that Nick/Username changes refresh the cached prefix; the delivery filters; +n/+G. "
        "Whether a helper's recipient set equals true membership at that moment is pairing (C14) plus history and is not decided.",
        NOTE_COMMON,
        "DESIGN.md section 3, C12"),
    "C14": (
        "paired-update (must-follow / must-precede) analysis over every write to the state maps (channel.nicks, Session.Channels, IRCServer.nicks/channels/sessions) on statement-level CFGs, guard clauses for the old-key removal, door checks by dominating facts, provenance of explicit lcNick/lcChan conversions; the same rules applied to every sibling handler",
        "Partial: decides the inductive step of the state invariants for the code shape — membership is updated on both sides (and empty channels are dropped, created channels get a member, channels are dropped only when empty), "
        "a nickname change updates index, channels and prefix and removes the old key only when it differs, only valid and unowned nicknames / valid channel names enter the indexes, sessions and channels are created only after the limit comparison, "
        "and lower-case key conversions only wrap values from the same key space. Value-dependent invariants (two spellings lower-casing to one key) and SVS* onto occupied targets are not decided.",
        NOTE_COMMON,
        "DESIGN.md section 3, C14"),
    "C13": (
        "gate dominance: privileged effects located by what they write (field writes, callee summaries), privilege clauses derived from dominating branch conditions (De Morgan, local boolean definitions resolved, clause subsumption), path rules over the JOIN else-if chain (every path from the channel-exists edge to the membership insert passes the ban / invite / captcha / key test), dispatch-key analysis for services commands",
        "Decides, for the code shape, that every privileged state change in client-reachable code is dominated by its privilege test on the granting edge (chanop|oper + membership for channel settings, membership and !+t|chanop for topics, chanop for kicks, "
        "membership and !+i|chanop for invites, self|oper for user modes, oper for KILL/GLINE/network notices, authOper's name-and-password match for operator status, the configured services password for server status, "
        "ban/invite/captcha/key tests on every path into an existing channel, server_ keys only addressable under s.Server, captcha MAC/prefix/age). Does not decide that the privilege bits are right at that moment (history; C14 keeps them consistent).",
        NOTE_COMMON,
        "DESIGN.md section 3, C13"),
    "C11": (
        "edge-dominance facts at the gate's success return (header read, non-empty, secret of the parsed id fetched without error, compared equal), who-reads of the secret, def-use of every session id reaching IRC state or a proposal in DispatchPublic's call closure, filter dominance at the encode site, who-may-call / closed world of routes over the whole module",
        "Decides the code shape of authentication for every route and every path: a route that reaches session data or an admin action without passing the credential comparison cannot exist in a tree that passes "
        "(gate correctness, every session-scoped sink behind the gate on its nil-error edge, delivery filter on the authenticated id, admin gate, handlers only callable from the dispatchers, only the two dispatchers registered, private routes unreachable publicly). "
        "Not decided: that the stored secret equals the one handed out (value flow through raft) and timing side channels.",
        NOTE_COMMON,
        "DESIGN.md section 3, C11"),
    "C02": (
        "CFG must-pass-through within the compaction loop (fold dominates every removal per iteration, horizon edge), reaching-definition check of the index passed to Marshal / lastSnapshotState / robustSnapshot after the last fold, dominance chains in Apply and Restore, writer/reader agreement of the snapshot stream container, def-use slice of the horizon",
        "Partial: decides six structural necessary conditions of compaction (fold-before-drop for exactly the folded entry and only below the horizon; state filed under an index defined after the last fold; "
        "persist-before-apply with fatal store errors; wipe/recreate/publish before decoding, state record loaded and filed, other records stored and applied; Persist/decodeProtobuf container agreement; horizon = start - (expiration + sweep interval)). "
        "Does NOT decide that the state after arbitrary Apply/Snapshot/Restore schedules equals plain replay (a history property).",
        NOTE_COMMON,
        "DESIGN.md section 3, C02"),
    "C16": (
        "dominance chain parse -> compare -> propose(+1) -> install over the CFGs of handlePostConfig / applyConfig / the Config arm, def-use of the tee'd body and the revision, who-writes closure over IRCServer.Config (field chains, address-of, map aliases), codec coverage of config.Network",
        "Partial: decides that only a parsed, current-revision update is proposed (as revision+1, byte-identical body), that the state machine installs it only on the nil-error edge and then sets the entry's revision under ConfigMu, "
        "that the configuration has no other writer than constructor / Config arm / snapshot load / GLINE-inside-the-state-machine, and that every configuration field is in the snapshot. Replica agreement under concurrent posts and TOML semantics are not decided.",
        NOTE_COMMON,
        "DESIGN.md section 3, C16"),
    "C17": (
        "edge dominance of the lastProcessed comparison over the two error returns, post-dominance of SetLastProcessed/MaybeDeleteSession after ProcessMessage, status-code mapping by facts at http.Error sites, guard facts at the expiry proposal, who-writes of Session.deleted, must-pass clean-up in deleteSessionLocked",
        "Partial: decides the guard shape of the two look-up errors, the API's error-to-status mapping (never 404 for not-yet-seen on a follower), the expiry sweep's filter (Reply == 0, Since(LastActivity) > SessionExpiration, leader only), "
        "that ending a session always frees nick and memberships and that only marked sessions leave the table, and that a closed session is sent only ERROR/KILL. Which answer a lagging follower gives for a concrete id depends on the applied prefix and is not decided.",
        NOTE_COMMON,
        "DESIGN.md section 3, C17"),
    "C19": (
        "CFG must-pass-through in main (every path to raft.NewRaft / joinMaster passes a successful time check or the explicit bypass), facts at the nil returns of synchronizedWithNetwork, constant-object identity of the threshold, def-use slice and expression shape of worstCaseDrift, statement order in getServerTime",
        "Partial: decides that the check is on every way in and fatal when it fails, that only the flag bypasses it, that silent peers are filtered (not trusted), that the refusing comparison is drift >= ElectionTimeout with raft's timeouts being that same constant, "
        "and that the bound is |Result-Start| + (End-Start) with Start/End bracketing the request. The arithmetic soundness of that bound for all delays is a numeric fact outside this technique and is not decided.",
        NOTE_COMMON,
        "DESIGN.md section 3, C19"),
    "C05": (
        "CFG path classification of the HTTP write handlers (every return after a proposal passes the nil-error edge of the commit call, an error answer or the leader hand-off), dominance in applyMessageWait, def-use of raft.NewRaft's store arguments",
        "Partial: decides the 'acknowledge only after commit' clause for every write handler and every path, the 'commit = raft future ok and FSM response not an error' clause, "
        "and that raft's log/stable/snapshot stores are the LevelDB/file stores under -raftdir with FSM.store being that log store. "
        "Does NOT decide behaviour of raft + LevelDB under kills, fail-over and restarts (crash-point behaviour of third-party code).",
        NOTE_COMMON + " Assumes hashicorp/raft and goleveldb honour their durability contracts.",
        "DESIGN.md section 3, C05"),
    "C07": (
        "CFG ordering inside applyProto's deferred recover handler (mark -> re-encode -> durable store on nil-error edge -> terminate), who-calls / who-writes closures, purity of the tombstone arm",
        "Partial: decides that a panic while applying is intercepted where it surfaces, that the process terminates only after the entry was marked, re-encoded and stored "
        "into raft's own log store under the entry's index (store error also terminates), that no path swallows the panic, that the message-of-death arm only advances the duplicate marker, "
        "and that nothing else ever marks entries or registers a panicking command. Restart/replay/snapshot interplay is crash-point behaviour and is not decided.",
        NOTE_COMMON,
        "DESIGN.md section 3, C07"),
    "C10": (
        "edge dominance of the duplicate test over every propose/forward site, def-use of the compared request field into the proposal, call ordering in the state machine arms, who-writes/who-reads of the marker field, codec coverage of the marker",
        "Partial: decides the structure implementing the duplicate marker (short-cut dominates propose and forward, acknowledges without effect; marker recorded before processing and for tombstones; "
        "single writer from the entry's ClientMessageId; marker and field survive snapshot and every log encoding). Whether a retry arrives after the first copy was applied on the handling replica is a schedule question and not decided.",
        NOTE_COMMON,
        "DESIGN.md section 3, C10"),
    "C03": (
        "field-coverage and correspondence analysis of the snapshot codec (go/types field lists x def-use of Marshal/Unmarshal), guard dominance for rebuilt indexes",
        "Structural completeness of the state snapshot, decided for every field by construction: each field of each replicated Go struct "
        "(closure of IRCServer's field types, taken from go/types so new fields are covered automatically) is read by Marshal and written by "
        "Unmarshal, each snapshot protobuf field is set and read back, each Go field round-trips through a protobuf field the reader maps "
        "back to the same Go field, converters come in inverse pairs, and the nick / server-link indexes are rebuilt under the live guards. "
        "Does NOT decide behavioural equality of the loaded instance for all continuations (a history property).",
        NOTE_COMMON + " Assumes protobuf's own encoding is lossless and timestamps fit UnixNano.",
        "DESIGN.md section 3, C03"),
}

NOT_APPLICABLE = {
}

PENDING = "check designed (DESIGN.md section 3) but not built yet in this tree; not claimed until its rule set exists"

ALL = ["C%02d" % i for i in range(1, 21)]



# Rule families added after the first version of a check (sweeps, later seeding rounds); appended to technique and level text.
ADDENDA = {
    "C12": ("; must-notify rule for user mode changes", " Also decided: every path from a change of a session's user modes to the end of the handler sends that session a MODE line."),
    "C03": ("; per-stored-value decoding rule for enum fields decided on the graph; skippability rule for copy loops; no-touch-up and length rules for restored records", " Also decided: each value the writer emits for an enum field decodes to one constant; no path through a copy loop passes the emitting statement by; a record built from the snapshot is not modified afterwards and lists keep their stored length."),
    "C01": ("; node-local-field rule (fields written outside the step are not read in it); comparator rule for sorted map keys", " Also decided: no field that code outside the step writes is read by the step. Also decided: the comparator handed to a sort of collected map keys compares the elements at its two indices."),
    "C02": ("; error / iterator / key-buffer / lock disciplines and frozen error dispositions over Snapshot, Restore, the decoders, Persist and Apply; path rules for the base-state selection, the removal after a fold, the command filter of Apply, the decoder dispatch and end-of-stream handling", " Also decided (necessary conditions found by a statement-level sweep of package main): a folded entry is removed before the next is looked at; the base state is the newest one below the first entry, loaded exactly when found and spared by the sweep; Apply persists and applies exactly command entries; Restore dispatches on the marker byte and the record loops end at and only at EOF; errors obtained are examined, handed on only where they can be set, and decisive error sites stay decisive."),
    "C04": ("; who-may-construct rule for reply contexts; borrowed determinism rules (C01.R1-R4)", " Also decided: output is numbered in one place (reply contexts only inside the IRC server, sendMessages stores what ProcessMessage returned) and the batch is dropped only when there are no replies or no output stream."),
    "C05": ("; error discipline and frozen error dispositions of the proposing handlers; must-answer rule for the hand-off to the leader; stamp-before-encode rule", " Also decided: a POST is acknowledged without proposing only where the replicated duplicate marker justifies it; the hand-off to the leader always answers; proposals are stamped before they are encoded and numbered from the raft index."),
    "C06": ("; scope extended to the functions of package main that Apply runs through (index / slice rule)", " The index / slice rule also covers the functions of package main between Apply and the IRC server."),
    "C07": ("; closed-list rules for applyProto proper and for the recover handler up to the stored marker; guard-polarity rule for recover()", " Also decided: recover() is evaluated for every entry that is not already a message of death; nothing but the apply call, metrics and plain logging runs in applyProto; nothing that can panic runs between the recovered panic and the stored marker."),
    "C08": ("; error / iterator / key-buffer disciplines over the package, order rule for Add (link, put, replace tail, put, write), single-deleter rule, path rules for the look-up results and fall-backs of GetNext, frozen error dispositions", " Also decided (found by a statement-level sweep of the package): every use of a key buffer is reached by an encoding made for it and a batch is stored under its own id; Add links and stores both batches in one write on a reset batch; 'not found' is reported only for LevelDB's ErrNotFound; the range search runs whenever the successor look-up failed and its hit is returned; batches are deleted by Delete only; Get returns the batch whole."),
    "C09": ("; error / iterator / lock disciplines over raftstore and raftlog, key-of-the-written-entry rule, closed list of key kinds and of stored encodings, path rules for the conversion on open, frozen error dispositions", " Also decided (found by a statement-level sweep of the package): the key of every Put was filled from the entry's index in the same iteration; what is written is keyed by an index key or the stable-store prefix and encoded as 'p'+protobuf or bare JSON; the writers refuse nothing but encoder / database failures; the conversion on open puts back what it re-encoded, re-encodes payloads only of command entries and always advances; iterators are read only where positioned."),
    "C10": ("; closed-world rules: client lines are proposed by handlePostMessage only, no whole-value assignment to a session, a success answer without proposing is implied by the duplicate test", ""),
    "C11": ("; closed lists for what the gates call and for what DispatchPrivate does with the response writer; rule that the gates never produce 'no such session' themselves; CORS header only for configured origins", " Also decided: the gates call nothing of the IRC server but GetAuth and never decide by themselves that a session does not exist; nothing is served before the password gate; cross-origin access is granted to configured origins only."),
    "C13": ("; helper summaries for ending a session, loop-freshness of the chanop test, pairing of the two representations of operator status, ban storage rules; length rule for the restored operator / service lists", " Also decided: a removal inside a loop is licensed by a test inside that loop; user mode 'o' and Session.Operator are written together; a ban that is set is stored in both forms. Also decided: the restored configuration holds no operator or service nobody configured."),
    "C14": ("; existence rule for the removal of the old nickname entry", ""),
    "C16": ("; converter rules for package config, source rule for the compared revision, reader rules (GET /config, Banned); length rule for restored configuration lists; no configuration write from a detached function literal; every definition of the compared revision followed", " Also decided: the compared revision comes from the request alone; the text converters store exactly on success; GET /config encodes the live configuration and Banned() is a look-up in it. Also decided: restored configuration lists have the stored length; the configuration is not written from a callback that runs outside the step."),
    "C17": ("; clause-positivity rule for the sweep and the removal of the acting session, closed condition list for processing a committed entry; must-end rule for announced ends (relayed QUIT, closing ERROR), no-dispatch rule after ProcessMessage ended the session", " Also decided: the sweep and the removal of the acting session sit on the positive edge of their conditions; a committed entry is processed on nothing but its type and the existence of its session; SetLastProcessed stores its argument. Also decided: a session whose QUIT is relayed or that is sent the closing ERROR is ended on every path through the announcement, and no command handler is reachable from a deletion in ProcessMessage."),
    "C18": ("; component-level completeness for struct-valued fields, path rule for the marker test, cursor-freshness and loop-bound rules for the batch codec, closed-world rule for JSON codec methods", " Also decided: identifier components are all copied; no path reaches a protobuf decode without the marker test; the batch codec advances its cursor between accesses and writes items unconditionally; replicated types carry no hand-written JSON codec."),
    "C19": ("; path rules for the collection (every answered measurement stored and judged, peers left out only for being this node or the join target), response-encoding rule for the status answer, error discipline; measurement fields located wherever they are set (literal, field assignment, deferred literal)", " Also decided: every answered measurement is stored and judged; the status answer carrying the time is encoded for this request. Also decided: End comes from a time.Now() evaluated after the request whatever form the assignment takes."),
    "C20": ("; lock hygiene (every return releases, deferred releases match, no re-entry through callees) over ircserver and api; ownership of cached batches; no whole-value copy of a session outside the IRC server", " Also decided: lock hygiene of packages ircserver and api, and that fields outside the lock table (including those of cached batches) are written only under a write lock."),
}

# rules added with seed round 10 ("maintenance at a distance")
ADDENDA10 = {
    "C02": ("; no-retry rule after a failed write; every-record rule for the restore loop", " Also decided: a failed write to the store is not retried or papered over, and the restore loop applies every record it read."),
    "C05": ("; no-own-errors rule for the proposal wait; header-before-body rule of the client-facing handlers; fresh-proposal rule; fatal error sites stay fatal", " Also decided: the proposal wait fails only with the error raft or the state machine gave it; a client-facing handler writes no body before the status; every proposal is a message built for this request."),
    "C07": ("; single-recovery-point rule; reader/writer agreement for the marked entry (decoder chosen by the record, not by a store setting)", " Also decided: recover() is called by applyProto's deferred function only, and GetLog decodes the form StoreLogProto writes whatever the store's settings are."),
    "C08": ("; no-own-errors rule for Add / Delete", " Also decided: Add and Delete fail only with a database error."),
    "C09": ("; error-identity rule (sentinel errors are handed on unwrapped where callers compare them)", " Also decided: the errors raft compares by identity (ErrLogNotFound, 'not found') arrive unwrapped."),
    "C11": ("; route tables followed; stored-as-given and non-empty rules for the network password", " Also decided: the admin gate compares with the password as it was configured, and the API is constructed only behind a test that it is not empty."),
    "C16": ("; no-own-errors rule for the configuration parser", " Also decided: config.FromString refuses a text only when the TOML decoder does, so a replica cannot refuse what the API accepted."),
    "C17": ("; error-identity rule for the session look-up errors", " Also decided: 'no such session' and 'not yet seen' arrive unwrapped where they are compared."),
    "C18": ("; decoder-assignment rule (every field a decoder sets is set from the record's field of that name); JSON key agreement", " Also decided: a decoder fills each field from the record field the encoder wrote it to, and JSON keys of writer and reader agree."),
    "C19": ("; flag-default rule for the bypass; measurement status held in a local followed", " Also decided: -disable_timesafeguard is a flag.Bool with the constant default false that nothing in the program sets."),
    "C20": ("; no-write rule for package-level variables outside init functions (one allow-listed, lock-guarded cache)", " Also decided: outside init functions no package-level variable of the replicated packages is assigned, incremented, written through an index or field, or handed out by address."),
}
for _k, _v in ADDENDA10.items():
    if _k in ADDENDA:
        ADDENDA[_k] = (ADDENDA[_k][0] + _v[0], ADDENDA[_k][1] + _v[1])
    else:
        ADDENDA[_k] = _v


# rules added with seed round 11 ("performance / concurrency / lifecycle work", "boundary, arithmetic and time slips")
ADDENDA11 = {
    "C01": ("; sync.Pool / sync.Map classed as nondeterministic, counting loops over maps accepted", ""),
    "C02": ("; the cached session expiration is restored with the state and refreshed from the configuration in force before Snapshot reads it (C02.N6e, N6f); single-definition rule for the first retained index, fresh-server rule for the fold, first-entry and buffer-not-kept rules for iterators, delegation of Persist followed", " Also decided: the base state is selected by the store's first index alone; the fold runs into a server made for this snapshot; no copy loop passes over the first entry."),
    "C03": ("; no-defaults rule for the restore, own-slices rule for the records", " Also decided: the restore reads no package-level default; every record is built from slices declared in the loop that builds it."),
    "C04": ("; write-before-leave rule for a received batch", " Also decided: no return lies between the receive of a batch and the loop that writes it."),
    "C06": ("; short-circuit facts, prefix and non-empty tests as length facts, scope extended to everything Apply reaches in the replicated packages", ""),
    "C07": ("; success-only-after-write rule for StoreLogProto; unchecked map look-up rule in applyProto", " Also decided: StoreLogProto returns nil only through the LevelDB write."),
    "C08": ("; write-lock rule for LevelDB deletes", " Also decided: every LevelDB delete of the output stream runs under messagesMu held for writing."),
    "C09": ("; success-only-after-write rule for Set / SetUint64 / StoreLogs / StoreLogProto; empty-batch rule for the writers; half-open forwarding and encoder summaries", " Also decided: the writers report success only after the LevelDB write, and the batch they write is created or reset in the same call."),
    "C15": ("; constant-type and clean-text rules for messages built between the output store and the client", " Also decided: the API builds no message with a copied type or with CR / LF in its text."),
    "C17": ("; one-critical-section rule for the restore of lastProcessed; 404 rule generalised to every caller of api.session", " Also decided: Unmarshal replaces lastProcessed under sessionsMu."),
    "C19": ("; own-slot rule for measurements; peer list of the status answer read from raft for each request", " Also decided: each peer's measurement is stored under its position in the list that sized the slice; the reported peers depend on no field of the API but the raft node."),
    "C20": ("; address-of rule extended to struct-valued scratch fields; alias-used-after-unlock rule within a function", " Also decided: a local that aliases guarded state is not used after the lock it was filled under has been released."),
}
for _k, _v in ADDENDA11.items():
    if _k in ADDENDA:
        ADDENDA[_k] = (ADDENDA[_k][0] + _v[0], ADDENDA[_k][1] + _v[1])
    else:
        ADDENDA[_k] = _v


def main():
    checks = []
    na = []
    for pid in ALL:
        if pid in CLAIMS:
            tech, text, note, ref = CLAIMS[pid]
            if pid in ADDENDA:
                tech, text = tech + ADDENDA[pid][0], text + ADDENDA[pid][1]
            checks.append({
                "property_id": pid,
                "quick_cmd": "./check.sh %s quick" % pid,
                "thorough_cmd": "./check.sh %s thorough" % pid,
                "evidence_file": "/verif/evidence/%s.json" % pid,
                "replay_cmd_template": "./check.sh %s quick  # replay file {path} names the obligation key that must be reported again" % pid,
                "engine": "verifcheck",
                "level_claimed": {"category": "other", "text": text, "design_ref": ref},
                "level_note": note,
                "technique": "static analysis: " + tech,
            })
        elif pid in NOT_APPLICABLE:
            na.append({"property_id": pid, "reason": NOT_APPLICABLE[pid]})
        else:
            na.append({"property_id": pid, "reason": PENDING})
    m = {
        "version": 1,
        "setup_cmd": "cd /verif/checker && env -u GOWORK GOFLAGS=-mod=mod GOPROXY=off GOSUMDB=off GOTOOLCHAIN=local go build -o ../bin/verifcheck ./cmd/verifcheck",
        "hooks": {
            "guard": "verif",
            "enable": "none needed: static analysis reads /repo's source as it is; no instrumentation is compiled in",
            "baseline_off_cmd": "cd /repo && env -u GOWORK GOFLAGS=-mod=mod GOPROXY=off GOSUMDB=off go test -vet=off -count=1 -timeout 25m ./...",
            "source_commits": [],
            "add_only": True,
        },
        "engines": [{
            "name": "verifcheck",
            "path": "/verif/checker",
            "serves_properties": sorted(CLAIMS.keys()),
            "kind_free_text": "custom Go static analyser (go/packages + go/types + go/cfg + go/ssa call graphs) with repository-specific rules; obligations keyed rule/function/construct",
        }],
        "checks": checks,
        "not_applicable": na,
        "notes": "Technique family: static analysis only. Every check loads /repo's current working tree, enumerates rule instances "
                 "(obligations), and reports an undischarged one as VIOLATION (exit 1) unless listed in known_findings.json (KNOWN-FINDING, exit 0). "
                 "exit 2 = the check itself is broken (tree does not type-check, anchor missing, vacuity floor not met).",
    }
    with open(os.path.join(HERE, "MANIFEST.json"), "w") as f:
        json.dump(m, f, indent=1)
        f.write("\n")
    try:
        import jsonschema
        jsonschema.validate(m, json.load(open("/root/.vp/MANIFEST.schema.json")))
        print("MANIFEST.json valid: %d checks, %d not_applicable" % (len(checks), len(na)))
    except ImportError:
        print("MANIFEST.json written (jsonschema not importable here; run with python3-vt to validate)")


if __name__ == "__main__":
    main()
