#!/bin/bash
# tools/mutx.sh <props|all> <file-relative-to-repo> <perl-substitution>   development aid: one-off mutation on a scratch copy
# of /repo (never /repo itself), build check, run rule sets (dry), print what is reported.
export GOFLAGS=-mod=mod GOPROXY=off GOSUMDB=off GOTOOLCHAIN=local; unset GOWORK
PROPS="$1"; F="$2"; SUB="$3"
T=$(mktemp -d /tmp/mx-XXXXXX)
(cd /repo && tar cf - --exclude=.git --exclude=mod_test .) | tar xf - -C $T
perl -0pi -e "$SUB" $T/$F
if diff -q /repo/$F $T/$F >/dev/null; then echo "NO CHANGE by $SUB"; rm -rf $T; exit 1; fi
diff <(cat /repo/$F) $T/$F | head -8
(cd $T && go build ./... 2>&1 | head -3)
for p in $PROPS; do /verif/bin/verifcheck -prop $p -tier quick -dry -repo $T -verif /verif 2>&1 | grep '^DRY' | cut -c1-500; done
rm -rf $T
