#!/bin/bash
# tools/refaccheck.sh <patch>...   development aid: false-alarm test. Applies each behaviour-preserving patch to a scratch copy
# of /repo, runs every rule set (dry), prints anything that is reported. Silence = no false alarm.
export GOFLAGS=-mod=mod GOPROXY=off GOSUMDB=off GOTOOLCHAIN=local; unset GOWORK
one() {
  P="$1"; T=$(mktemp -d /tmp/rf-XXXXXX)
  (cd /repo && tar cf - --exclude=.git --exclude=mod_test .) | tar xf - -C $T
  if ! (cd $T && GIT_CEILING_DIRECTORIES=/tmp git apply --whitespace=nowarn "$P" 2>/dev/null); then echo "$P: DOES NOT APPLY"; rm -rf $T; return; fi
  out=$(${VC:-/verif/bin/verifcheck} -prop all -tier quick -dry -repo $T -verif /verif 2>&1)
  bad=$(echo "$out" | grep -v '^DRY {"exit":0' | grep "DRY\|BROKEN\|panic" | cut -c1-600)
  if [ -n "$bad" ]; then echo "== $P"; echo "$bad"; else echo "ok $P ($(echo "$out" | grep -c '^DRY') rule sets)"; fi
  rm -rf $T
}
export -f one
if [ $# = 0 ]; then set -- /verif/refactorings/*/patch.diff; fi
printf "%s\n" "$@" | xargs -P 8 -I{} bash -c 'one {}'
