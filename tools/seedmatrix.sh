#!/bin/bash
# tools/seedmatrix.sh [seed-dir...]   development aid: every stored seeded change against its property's rule set
# (scratch copies of /repo's working tree; /repo is not touched). Writes seeded/MATRIX.md when run without arguments.
export GOFLAGS=-mod=mod GOPROXY=off GOSUMDB=off GOTOOLCHAIN=local; unset GOWORK
cd /verif
one() {
  D="$1"; P=$(basename $D | cut -d- -f1); T=$(mktemp -d /tmp/sm-XXXXXX)
  (cd /repo && tar cf - --exclude=.git --exclude=mod_test .) | tar xf - -C $T
  if ! (cd $T && GIT_CEILING_DIRECTORIES=/tmp git apply --whitespace=nowarn /verif/$D/patch.diff 2>/dev/null); then echo "$(basename $D)|DOES-NOT-APPLY|"; rm -rf $T; return; fi
  out=$(/verif/bin/verifcheck -prop $P -tier quick -dry -repo $T -verif /verif 2>&1 | grep '^DRY' | tail -1)
  ex=$(echo "${out#DRY }" | jq -r .exit); first=$(echo "${out#DRY }" | jq -r '(.violated + (.broken // []))[0] // ""')
  n=$(echo "${out#DRY }" | jq -r '(.violated|length)')
  if [ "$ex" = 0 ]; then echo "$(basename $D)|MISSED|"; else echo "$(basename $D)|detected ($n)|$first"; fi
  rm -rf $T
}
export -f one
if [ $# -gt 0 ]; then printf "%s\n" "$@" | sed 's#^/verif/##' | xargs -P 8 -I{} bash -c 'one {}' | sort; exit; fi
ls -d seeded/C*-* | xargs -P 8 -I{} bash -c 'one {}' | sort > /tmp/matrix.txt
{ echo "| seeded change | what it changes | verdict of the property's check | first obligation reported |"; echo "|---|---|---|---|";
  while IFS='|' read -r id verdict first; do sum=$(jq -r '.summary' seeded/$id/meta.json | tr '\n|' ' /' | cut -c1-160); echo "| $id | $sum | $verdict | $first |"; done < /tmp/matrix.txt; } > seeded/MATRIX.md
rm -f /tmp/matrix.txt; grep -c detected seeded/MATRIX.md; grep "MISSED\|DOES-NOT" seeded/MATRIX.md
