#!/usr/bin/env python3
"""tools/kf.py add <property> <rule> <key> <what> [status] [commit]  — development aid to edit known_findings.json (never called by a check)."""
import json, sys
p='/verif/known_findings.json'
d=json.load(open(p))
if sys.argv[1]=='add':
    e={"property":sys.argv[2],"rule":sys.argv[3],"key":sys.argv[4],"status":sys.argv[6] if len(sys.argv)>6 else "known","what":sys.argv[5]}
    if len(sys.argv)>7: e["commit"]=sys.argv[7]
    d["findings"]=[f for f in d["findings"] if not (f["key"]==e["key"] and f["property"]==e["property"])]+[e]
json.dump(d,open(p,'w'),indent=1); open(p,'a').write("\n")
