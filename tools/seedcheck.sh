#!/bin/bash
# tools/seedcheck.sh <patch> [props...]   development aid: apply a seeded patch to /repo, run quick checks, revert.
set -u
PATCH="$1"; shift
PROPS="${*:-$(/verif/bin/verifcheck -list)}"
cd /repo || exit 2
if [ -n "$(git status --porcelain)" ]; then echo "repo dirty"; exit 2; fi
if ! git apply --3way "$PATCH" 2>/dev/null && ! git apply "$PATCH"; then echo "PATCH DOES NOT APPLY"; git checkout -- . ; exit 3; fi
cd /verif
for p in $PROPS; do
  out=$(./check.sh $p quick 2>&1)
  if echo "$out" | grep -q "VIOLATION\|CHECK-BROKEN"; then echo "== $p DETECTS:"; echo "$out" | grep "violated:\|CHECK-BROKEN" | cut -c1-220 | head -5; fi
done
git -C /repo reset -q --hard HEAD
