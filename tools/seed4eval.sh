#!/bin/bash
# tools/seed4eval.sh <out-root> <P>...   development aid: first-contact evaluation of freshly delivered seeds (scratch copies)
ROOT=$1; shift
for P in "$@"; do for f in $ROOT/$P/*.patch.diff; do [ -f $f ] || continue; L=$(basename $f .patch.diff); T=$(mktemp -d /tmp/s4-XXXX); (cd /repo && tar cf - --exclude=.git --exclude=mod_test .) | tar xf - -C $T; if (cd $T && GIT_CEILING_DIRECTORIES=/tmp git apply --whitespace=nowarn $f 2>/dev/null); then out=$(/verif/bin/verifcheck -prop $P -tier quick -dry -repo $T -verif /verif 2>&1 | grep '^DRY' | tail -1); echo "$P-$L $(echo "${out#DRY }" | jq -r 'if .exit==0 then "MISSED" else "detected: "+((.violated+(.broken//[]))[0]) end' | cut -c1-170)"; else echo "$P-$L NOAPPLY"; fi; rm -rf $T; done; done
