#!/bin/bash
# ./check.sh Cnn quick|thorough  — decides one property on /repo's current working tree.
set -u
cd "$(dirname "$0")"
export GOFLAGS=-mod=mod GOPROXY=off GOSUMDB=off GOTOOLCHAIN=local
unset GOWORK
PROP="${1:?property id}"; TIER="${2:-quick}"
if [ ! -x bin/verifcheck ] || [ -n "$(find checker -newer bin/verifcheck -name '*.go' -print -quit 2>/dev/null)" ]; then
  (cd checker && go build -o ../bin/verifcheck ./cmd/verifcheck) || { echo "CHECK-BROKEN property=$PROP cannot build checker"; exit 2; }
fi
exec bin/verifcheck -prop "$PROP" -tier "$TIER" -repo "${VERIF_REPO:-/repo}" -verif "$(pwd)"
